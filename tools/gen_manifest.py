#!/venv/bin/python
"""Regenerate /verif/MANIFEST.json from gtmon/registry.py + gtmon/manifest_data.py."""
import json, os, sys
V = os.path.dirname(os.path.dirname(os.path.abspath(__file__)))
sys.path.insert(0, V)
from gtmon.registry import REGISTRY
from gtmon.manifest_data import CHECKS, NOTES, ENGINES, HOOK_COMMITS
props = [json.loads(l) for l in open(os.path.join(V, "properties.jsonl"))]
checks, na = [], []
for p in props:
    pid = p["id"]
    if pid in REGISTRY and pid in CHECKS:
        c = CHECKS[pid]
        checks.append({
            "property_id": pid,
            "quick_cmd": "./check %s --tier quick" % pid,
            "thorough_cmd": "./check %s --tier thorough" % pid,
            "evidence_file": "evidence/%s.json" % pid,
            "replay_cmd_template": "./check %s --replay {path}" % pid,
            "engine": c.get("engine", "gtmon"),
            "level_claimed": {"category": REGISTRY[pid].get("level", "exploration"),
                              "text": c["text"], "design_ref": c["design_ref"]},
            "level_note": c["note"],
            "technique": c["technique"],
        })
    else:
        na.append({"property_id": pid, "reason": "check not built yet in this round (runtime-monitoring design exists in DESIGN.md section 5); not claimed until its monitor runs silently on the unchanged tree"})
m = {
    "version": 1,
    "setup_cmd": "./tools/setup",
    "hooks": {"guard": "GTIRB_VERIF", "enable": "no source hooks: all monitors observe the public API of a build of /repo's working tree made by gtmon/build.py (GTIRB_VERIF is reserved and currently read by nothing)",
              "baseline_off_cmd": "cd /repo && /venv/bin/python -m pytest -ra -q -p no:cacheprovider --timeout=900 --continue-on-collection-errors --junitxml=/tmp/gtirb-baseline.junit.xml",
              "source_commits": HOOK_COMMITS, "add_only": True},
    "engines": ENGINES,
    "checks": checks,
    "notes": NOTES,
    "not_applicable": na,
}
json.dump(m, open(os.path.join(V, "MANIFEST.json"), "w"), indent=1)
print("checks:", len(checks), "not_applicable:", len(na))
