package com.google.protobuf;
// Stub used only so that com.grammatech.gtirb.Util compiles stand-alone;
// the AuxData codec paths exercised by Xcheck never touch it.
public final class ByteString {
    public static final ByteString EMPTY = new ByteString(new byte[0]);
    private final byte[] b;
    private ByteString(byte[] b) { this.b = b; }
    public static ByteString copyFrom(byte[] b) { return new ByteString(b.clone()); }
    public byte[] toByteArray() { return b.clone(); }
}
