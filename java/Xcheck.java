// C08 oracle 2: drive the repository's *unchanged* Java AuxData codecs.
// stdin lines:  <id>\t<type name>\t<hex bytes>
// stdout lines: <id>\tOK\t<json rendering of decoded value>\t<hex of re-encoding>\t<unconsumed byte count>
//           or: <id>\tERR\t<exception>
import com.grammatech.gtirb.Offset;
import com.grammatech.gtirb.Util;
import com.grammatech.gtirb.auxdatacodec.*;
import com.grammatech.gtirb.tuple.*;
import com.grammatech.gtirb.variant.*;
import java.io.*;
import java.nio.charset.StandardCharsets;
import java.util.*;

@SuppressWarnings({"unchecked", "rawtypes"})
public class Xcheck {
    static class T1 extends Tuple1 { T1(Object a) { super(a); } }
    static class T2 extends Tuple2 { T2(Object a, Object b) { super(a, b); } }
    static class T3 extends Tuple3 { T3(Object a, Object b, Object c) { super(a, b, c); } }
    static class T4 extends Tuple4 { T4(Object a, Object b, Object c, Object d) { super(a, b, c, d); } }
    static class T5 extends Tuple5 { T5(Object a, Object b, Object c, Object d, Object e) { super(a, b, c, d, e); } }
    static class V2 extends Variant2 {
        V2(Token.T0 t, Object o) { super(t, o); }
        V2(Token.T1 t, Object o) { super(t, o); }
    }
    static class V3 extends Variant3 {
        V3(Token.T0 t, Object o) { super(t, o); }
        V3(Token.T1 t, Object o) { super(t, o); }
        V3(Token.T2 t, Object o) { super(t, o); }
    }

    static class Ty { String name; List<Ty> kids = new ArrayList<>(); }

    static int pos; static String src;
    static Ty parseType() {
        Ty t = new Ty(); int st = pos;
        while (pos < src.length() && "<>,".indexOf(src.charAt(pos)) < 0) pos++;
        t.name = src.substring(st, pos);
        if (pos < src.length() && src.charAt(pos) == '<') {
            pos++;
            while (true) {
                t.kids.add(parseType());
                char c = src.charAt(pos++);
                if (c == '>') break;
                if (c != ',') throw new RuntimeException("bad type name");
            }
        }
        return t;
    }

    static Codec mk(Ty t) {
        List<Ty> k = t.kids;
        switch (t.name) {
        case "int8_t": return ByteCodec.INT8;
        case "uint8_t": return ByteCodec.UINT8;
        case "int16_t": return ShortCodec.INT16;
        case "uint16_t": return ShortCodec.UINT16;
        case "int32_t": return IntegerCodec.INT32;
        case "uint32_t": return IntegerCodec.UINT32;
        case "int64_t": return LongCodec.INT64;
        case "uint64_t": return LongCodec.UINT64;
        case "bool": return new BoolCodec();
        case "float": return new FloatCodec();
        case "string": return new StringCodec();
        case "UUID": return new UuidCodec();
        case "Offset": return new OffsetCodec();
        case "sequence": return new ListCodec(mk(k.get(0)), ArrayList::new);
        case "set": return new SetCodec(mk(k.get(0)), LinkedHashSet::new);
        case "mapping": return new MapCodec(mk(k.get(0)), mk(k.get(1)), LinkedHashMap::new);
        case "tuple":
            switch (k.size()) {
            case 1: return new Tuple1Codec(mk(k.get(0)), (a) -> new T1(a));
            case 2: return new Tuple2Codec(mk(k.get(0)), mk(k.get(1)), (a, b) -> new T2(a, b));
            case 3: return new Tuple3Codec(mk(k.get(0)), mk(k.get(1)), mk(k.get(2)), (a, b, c) -> new T3(a, b, c));
            case 4: return new Tuple4Codec(mk(k.get(0)), mk(k.get(1)), mk(k.get(2)), mk(k.get(3)), (a, b, c, d) -> new T4(a, b, c, d));
            case 5: return new Tuple5Codec(mk(k.get(0)), mk(k.get(1)), mk(k.get(2)), mk(k.get(3)), mk(k.get(4)), (a, b, c, d, e) -> new T5(a, b, c, d, e));
            }
            break;
        case "variant":
            switch (k.size()) {
            case 2: return new Variant2Codec(mk(k.get(0)), mk(k.get(1)),
                        (a) -> new V2(new Token.T0(), a), (b) -> new V2(new Token.T1(), b));
            case 3: return new Variant3Codec(mk(k.get(0)), mk(k.get(1)), mk(k.get(2)),
                        (a) -> new V3(new Token.T0(), a), (b) -> new V3(new Token.T1(), b), (c) -> new V3(new Token.T2(), c));
            }
            break;
        }
        throw new UnsupportedOperationException("type not supported by the Java codecs: " + t.name + "/" + k.size());
    }

    static String hex(byte[] b) {
        StringBuilder sb = new StringBuilder();
        for (byte x : b) sb.append(String.format("%02x", x & 0xff));
        return sb.toString();
    }
    static byte[] unhex(String s) {
        byte[] b = new byte[s.length() / 2];
        for (int i = 0; i < b.length; i++) b[i] = (byte) Integer.parseInt(s.substring(2 * i, 2 * i + 2), 16);
        return b;
    }
    static String jstr(String s) {
        StringBuilder sb = new StringBuilder("\"");
        for (int i = 0; i < s.length(); i++) {
            char c = s.charAt(i);
            if (c == '"' || c == '\\' || c < 0x20 || c > 0x7e) sb.append(String.format("\\u%04x", (int) c));
            else sb.append(c);
        }
        return sb.append("\"").toString();
    }
    static String uuidHex(UUID u) throws IOException {
        ByteArrayOutputStream o = new ByteArrayOutputStream();
        Util.writeUUID(o, u);   // the 16 wire bytes, whatever the in-memory form
        return hex(o.toByteArray());
    }

    static String render(Ty t, Object v) throws IOException {
        List<Ty> k = t.kids;
        switch (t.name) {
        case "int8_t": return Integer.toString((Byte) v);
        case "uint8_t": return Integer.toString(((Byte) v) & 0xff);
        case "int16_t": return Integer.toString((Short) v);
        case "uint16_t": return Integer.toString(((Short) v) & 0xffff);
        case "int32_t": return Integer.toString((Integer) v);
        case "uint32_t": return Integer.toUnsignedString((Integer) v);
        case "int64_t": return Long.toString((Long) v);
        case "uint64_t": return Long.toUnsignedString((Long) v);
        case "bool": return ((Boolean) v) ? "true" : "false";
        case "float": return "{\"f32\":" + Integer.toUnsignedString(Float.floatToRawIntBits((Float) v)) + "}";
        case "string": return jstr((String) v);
        case "UUID": return "{\"u\":\"" + uuidHex((UUID) v) + "\"}";
        case "Offset": {
            Offset o = (Offset) v;
            return "{\"o\":\"" + uuidHex(o.getElementId()) + "\",\"d\":" + Long.toUnsignedString(o.getDisplacement()) + "}";
        }
        case "sequence": case "set": {
            StringBuilder sb = new StringBuilder("{\"" + (t.name.equals("set") ? "set" : "seq") + "\":[");
            boolean first = true;
            for (Object x : (Collection) v) { if (!first) sb.append(","); first = false; sb.append(render(k.get(0), x)); }
            return sb.append("]}").toString();
        }
        case "mapping": {
            StringBuilder sb = new StringBuilder("{\"map\":[");
            boolean first = true;
            for (Object e0 : ((Map) v).entrySet()) {
                Map.Entry e = (Map.Entry) e0;
                if (!first) sb.append(","); first = false;
                sb.append("[").append(render(k.get(0), e.getKey())).append(",").append(render(k.get(1), e.getValue())).append("]");
            }
            return sb.append("]}").toString();
        }
        case "tuple": {
            Object[] f;
            switch (k.size()) {
            case 1: f = new Object[]{((Tuple1) v).get0()}; break;
            case 2: f = new Object[]{((Tuple2) v).get0(), ((Tuple2) v).get1()}; break;
            case 3: f = new Object[]{((Tuple3) v).get0(), ((Tuple3) v).get1(), ((Tuple3) v).get2()}; break;
            case 4: f = new Object[]{((Tuple4) v).get0(), ((Tuple4) v).get1(), ((Tuple4) v).get2(), ((Tuple4) v).get3()}; break;
            default: f = new Object[]{((Tuple5) v).get0(), ((Tuple5) v).get1(), ((Tuple5) v).get2(), ((Tuple5) v).get3(), ((Tuple5) v).get4()};
            }
            StringBuilder sb = new StringBuilder("{\"tup\":[");
            for (int i = 0; i < f.length; i++) { if (i > 0) sb.append(","); sb.append(render(k.get(i), f[i])); }
            return sb.append("]}").toString();
        }
        case "variant": {
            int idx; Object val;
            if (k.size() == 2) { Variant2 x = (Variant2) v; idx = x.getIndex(); val = idx == 0 ? x.get0().get() : x.get1().get(); }
            else { Variant3 x = (Variant3) v; idx = x.getIndex(); val = idx == 0 ? x.get0().get() : idx == 1 ? x.get1().get() : x.get2().get(); }
            return "{\"var\":" + idx + ",\"val\":" + render(k.get(idx), val) + "}";
        }
        }
        throw new RuntimeException("render: " + t.name);
    }

    public static void main(String[] args) throws Exception {
        BufferedReader in = new BufferedReader(new InputStreamReader(System.in, StandardCharsets.UTF_8));
        PrintStream out = new PrintStream(new FileOutputStream(FileDescriptor.out), false, "UTF-8");
        String line;
        while ((line = in.readLine()) != null) {
            String[] f = line.split("\t", -1);
            if (f.length < 3) continue;
            try {
                src = f[1]; pos = 0;
                Ty t = parseType();
                if (pos != src.length()) throw new RuntimeException("trailing type text");
                Codec c = mk(t);
                byte[] data = unhex(f[2]);
                ByteArrayInputStream bin = new ByteArrayInputStream(data);
                Object v = c.decode(bin);
                ByteArrayOutputStream bo = new ByteArrayOutputStream();
                c.encode(bo, v);
                out.println(f[0] + "\tOK\t" + render(t, v) + "\t" + hex(bo.toByteArray()) + "\t" + bin.available() + "\t" + c.getTypeName());
            } catch (Throwable e) {
                out.println(f[0] + "\tERR\t" + e.toString().replace('\t', ' ').replace('\n', ' '));
            }
        }
        out.flush();
    }
}
