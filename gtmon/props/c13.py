"""C13 - symbolic-expression lookup by address equals a fresh scan.

Layout engine weighted towards mapping operations on symbolic_expressions
(item set/replace/delete, pop, popitem, setdefault, update, clear,
whole-mapping assignment from a dict, a list of pairs and another interval's
mapping), interval address changes and moves; interval scope compared as an
ordered list of (interval, offset, expression) identities, wider scopes as a
multiset sandwich; a harness mirror of the mapping operations is compared
with the store after every operation."""
from . import c05

META = {
    "rule": "layout histories with mapping-heavy weights; queries built "
            "from critical coordinates (points, positive-step ranges, empty "
            "and reversed ranges); interval scope must equal the ordered "
            "scan of the stored expressions exactly (identity of interval "
            "and expression, increasing offset), nothing for an unaddressed "
            "interval; section/module/IR scope: must <= got <= may where "
            "expressions at offsets >= interval size are only in may. "
            "Non-trivial = every history; distinct = hash of the operation "
            "list.",
    "reach": {"oracle_comparisons": 100000, "nonempty_expectations": 10000,
              "store_mirror_checks": 5000, "op:ex_assign": 200,
              "op:ex_assign_other": 100, "op:ex_update": 200,
              "op:ex_popitem": 50, "op:ex_setdefault": 200,
              "edit_then_lookup:iv_addr": 200},
    "assumptions": [
        "'stored' is defined by the public mapping view; assigning an "
        "interval's own mapping object back to it is outside every listed "
        "property and is not generated",
        "mapping keys are non-negative ints",
    ],
}


def run(ctx):
    c05.run(ctx, "C13", focus="C13")


def replay(ctx, rec):
    c05.replay(ctx, rec)
