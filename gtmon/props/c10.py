"""C10 - symbol lookups by name and by referent track every change.

Ownership engine with symbol-heavy weights: after every operation
symbols_named(x) for every name of a small alphabet (incl. '') and
block.references for every block of the universe are compared with a scan."""
from . import c03

META = {
    "rule": "ownership-engine histories weighted towards symbol edits: "
            "rename (to '' and to shared names), payload switches among "
            "code/data/proxy block, 0, other ints and None via referent=, "
            "value= and the constructor, symbol add/remove/move between "
            "modules from both ends, block/interval/section/proxy/module "
            "moves, save->load. Non-trivial = every history; distinct = "
            "hash of the operation list.",
    "reach": {"world_checks": 5000, "c10:symbols_named_nonempty": 500,
              "c10:references_nonempty": 200,
              "c10:payload_transition:block->int": 20,
              "c10:payload_transition:int->block": 20,
              "c10:payload_transition:block->block": 20,
              "c10:payload_transition:block->none": 20,
              "c10:payload_transition:block->zero": 20,
              "c10:payload_transition:zero->block": 20,
              "op:sym.rename": 250, "moves": 1000},
    "assumptions": ["names are drawn from a pool of ten (empty, short, long, "
                    "composed and decomposed forms of one text) so that "
                    "shared names are the norm; every name handed to the "
                    "API is a string object of its own"],
}


def run(ctx):
    c03.run(ctx, "C10")
