"""C07 - every AuxData value survives encode -> decode unchanged.

Runtime monitor on Serialization.encode/decode of the working tree: generated
(type tree, value) pairs; oracle = normal-form equality with the original
(binary32 rounding applied independently through ctypes), Python container
classes, node identity, and consumption observed by embedding the value
before a sentinel / between neighbours."""
import io

from .. import auxgen, codecmon, refcodec, reftypes
from ..ctx import Discrepancy

META = {
    "rule": "random type trees (depth<=4, <=4 fields per tuple/variant) over "
            "all 20 codec names and values with integer bounds, multi-byte / "
            "NUL / delimiter strings, NaN/inf/-0.0/subnormals, empty and "
            "nested containers, every variant alternative, UUID/Offset "
            "entries naming attached, detached and unknown nodes. "
            "Non-trivial = the type has at least one container or the "
            "encoding is longer than 1 byte; distinct = hash of (type name, "
            "encoded bytes).",
    "reach": {"oracle_comparisons": 500, "consumption_checks": 500,
              "identity_checks": 500, "strings:non_ascii": 50,
              "#type_names_used": 20, "failed_encodes": 100, "failed_decodes": 200, "via_ir_save_load": 20},
    "assumptions": [
        "value domain = values representable in this API's decoded form: "
        "set elements / mapping keys hashable and NaN-free, 'float' values "
        "inside the binary32 range",
        "binary32 rounding reference is ctypes.c_float",
    ],
}


def walk_types(t):
    yield t
    for k in t[1]:
        yield from walk_types(k)


def note_coverage(ctx, t, v, raw):
    for name, kids in walk_types(t):
        ctx.seen("type_names_used", name)
    ctx.count("type_depth:%d" % reftypes.depth(t))

    def strings(x, xt):
        if xt[0] == "string":
            yield x
        elif xt[0] in ("sequence", "set"):
            for y in x:
                yield from strings(y, xt[1][0])
        elif xt[0] == "mapping":
            for k, y in x.items():
                yield from strings(k, xt[1][0])
                yield from strings(y, xt[1][1])
        elif xt[0] == "tuple":
            for y, yt in zip(x, xt[1]):
                yield from strings(y, yt)
        elif xt[0] == "variant":
            yield from strings(x.val, xt[1][x.index])
    for s in strings(v, t):
        ctx.count("strings:total")
        if any(ord(c) > 127 for c in s):
            ctx.count("strings:non_ascii")
        if "\x00" in s:
            ctx.count("strings:with_nul")
        if not s:
            ctx.count("strings:empty")


def via_ir(mon, case, t, v, pool):
    """AuxData.data after a save/load cycle of an IR."""
    import gtirb
    tn = reftypes.show(t)
    ir = pool.ir
    ir.aux_data["t"] = gtirb.AuxData(v, tn)
    pool.ir.modules[0].aux_data["t"] = gtirb.AuxData(v, tn)
    try:
        b = io.BytesIO()
        ir.save_protobuf_file(b)
        ir2 = gtirb.IR.load_protobuf_file(io.BytesIO(b.getvalue()))
        for holder in (ir2, ir2.modules[0]):
            d = holder.aux_data["t"].data
            if holder.aux_data["t"].type_name != tn:
                raise Discrepancy("C07", "ir-cycle-type-name",
                                  "type name changed across save/load",
                                  {"type": tn})
            if mon.decoded_norm(d, t) != mon.expected(v, t):
                raise Discrepancy(
                    "C07", "ir-cycle-value:%s" % mon.culprit(
                        v, t, lambda x, xt: mon.roundtrip_bad(x, xt, pool)),
                    "AuxData of type %s differs after save/load" % tn,
                    {"type": tn, "value": auxgen.describe(v, t)})
            by = {n.uuid: n for n in [ir2] + list(ir2.modules) +
                  list(ir2.sections) + list(ir2.byte_intervals) +
                  list(ir2.byte_blocks) + list(ir2.proxy_blocks) +
                  list(ir2.symbols)}
            errs = auxgen.identity_errors(d, t, gtirb, by)
            if errs:
                raise Discrepancy("C07", "ir-cycle-identity", errs[0],
                                  {"type": tn})
        mon.ctx.count("via_ir_save_load")
    finally:
        del ir.aux_data["t"]
        del pool.ir.modules[0].aux_data["t"]


def run(ctx):
    import gtirb
    codecmon.private_serialization(gtirb, ctx)
    mon = codecmon.CodecMonitor(ctx, gtirb)

    def one(case):
        rnd = case.rnd
        pool = auxgen.Pool(gtirb, rnd)
        for _ in range(20):
            t, v = codecmon.gen_case(
                rnd, pool, big=ctx.tier == "thorough" and
                rnd.random() < 0.01)
            tn = reftypes.show(t)
            case.ops = [{"type": tn, "value": auxgen.describe(v, t)}]
            ctx.count("cases")
            if rnd.random() < 0.08:
                mon.failed_encode(case, t, v)
            if rnd.random() < 0.15:
                mon.failed_decode(case, t, v)
            raw = mon.check_roundtrip(case, t, v, pool)
            note_coverage(ctx, t, v, raw)
            if t[1] or len(raw) > 1:
                ctx.seen("nontrivial", (tn, raw))
            if rnd.random() < 0.1:
                via_ir(mon, case, t, v, pool)
        if case.index % 97 == 0:
            ctx.sample({"type": tn, "value": auxgen.describe(v, t),
                        "bytes": raw.hex()[:200]})

    for case in ctx.cases("rt", ctx.params.get("n_rt", 400)):
        ctx.run_case(case, one)
    # the third clause in a loaded IR: tables are decoded when first read,
    # against the IR as it is then
    from . import c09

    def late(case):
        ctx.count("cases")
        c09.late_reads(ctx, case, gtirb, "C07")
        ctx.seen("nontrivial", ("late", case.index))
    for case in ctx.cases("late", max(50, ctx.params.get("n_rt", 400) // 100)):
        ctx.run_case(case, late)

    # round trips through a *table* (AuxData object -> file -> AuxData
    # object), the value edited in place between two of them, also deep
    # inside tuples and variants
    def table(case):
        from .. import irio
        rnd = case.rnd
        pool = auxgen.Pool(gtirb, rnd)
        t = auxgen.gen_type(rnd, rnd.choice([1, 2, 3]))
        if rnd.random() < 0.5:
            t = ("tuple", [auxgen.gen_type(rnd, rnd.choice([0, 1, 2]))
                           for _ in range(rnd.randint(1, 3))])
        v = auxgen.gen_value(rnd, t, pool)
        tn = reftypes.show(t)
        case.ops = [{"type": tn}]
        ctx.count("cases")
        ir = gtirb.IR()
        ir.aux_data["t"] = gtirb.AuxData(v, tn)
        want = refcodec.norm(refcodec.neutral(v, t))
        for trip in range(3):
            ir = irio.load(gtirb, irio.save(ir))
            d = ir.aux_data["t"].data
            ctx.count("table_round_trips")
            if refcodec.norm(refcodec.neutral(d, t)) != want:
                raise Discrepancy(
                    "C07", "table-roundtrip:%s" % (
                        "after-in-place-edit" if trip else "plain"),
                    "a %s table read back after round trip %d is not the "
                    "value that was stored" % (tn, trip + 1), {})
            if auxgen.mutate_nested(rnd, d, t, pool):
                ctx.count("table_round_trips_edited_in_place")
                want = refcodec.norm(refcodec.neutral(d, t))
        ctx.seen("nontrivial", ("table", tn, case.index))
    for case in ctx.cases("table", max(60, ctx.params.get("n_rt", 400) // 20)):
        ctx.run_case(case, table)
    mon.close()
