"""C18 - deep_eq is exact structural equality.

Monitor: pairs of IRs built independently from one spec (different
construction strategies and insertion orders, or one side through save/load)
must be deep_eq in both directions; every single-field perturbation from
gtmon/perturb.py must make deep_eq false in both directions.  The expected
answer is computed from the specs: equal after erasing AuxData values."""
import copy

from .. import contract, irbuild, irio, perturb, spec as gspec, world
from ..ctx import Discrepancy

META = {
    "rule": "C01 specs (profile 'wide' up to 9 children per collection); "
            "side A built from the spec, side B from a shuffled copy under "
            "another strategy or via save/load -> deep_eq must be True both "
            "ways (IR level and per node kind); each perturbation of "
            "gtmon/perturb.py applied to B -> expected = normalised specs "
            "equal modulo AuxData values. Non-trivial = a perturbation pair "
            "or an equal pair with >=4 node kinds; distinct = hash of "
            "(normalised spec, perturbation label).",
    "reach": {"equal_pairs": 100, "perturbed_pairs": 1500,
              "#perturbation_labels": 45, "node_level_checks": 1000,
              "expected_true_despite_change": 3, "cross_kind_checks": 1000},
    "assumptions": [
        "module order in ir.modules is not a compared field (deep_eq is "
        "documented as insensitive to collection order)",
        "a perturbation keeps the spec self-contained: only unreferenced "
        "nodes are removed; UUID changes are applied consistently",
    ],
}


def shuffled(sp, rnd):
    s = copy.deepcopy(sp)
    for m in s["modules"]:
        for key in ("proxies", "symbols", "sections"):
            rnd.shuffle(m[key])
        for sec in m["sections"]:
            rnd.shuffle(sec["intervals"])
            rnd.shuffle(sec["flags"])
            for bi in sec["intervals"]:
                rnd.shuffle(bi["blocks"])
                items = list(bi["exprs"].items())
                rnd.shuffle(items)
                bi["exprs"] = dict(items)
                for e in bi["exprs"].values():
                    rnd.shuffle(e["attrs"])
    rnd.shuffle(s["edges"])
    return s


def both_ways(ctx, a, b, expected, label, what):
    ctx.count("deep_eq_calls", 2)
    r1 = a.deep_eq(b)
    r2 = b.deep_eq(a)
    if r1 != r2:
        raise Discrepancy("C18", "asymmetric:%s" % label,
                          "%s: a.deep_eq(b) is %s but b.deep_eq(a) is %s"
                          % (what, r1, r2), {"label": label})
    if r1 != expected:
        raise Discrepancy(
            "C18", ("misses-difference:%s" if expected is False
                    else "false-difference:%s") % label,
            "%s: deep_eq is %s, expected %s" % (what, r1, expected),
            {"label": label})


def node_level(ctx, gt, na, nb, label=None, expect=True):
    """Equal copies: every pair of corresponding nodes is deep_eq."""
    for u, x in na.items():
        y = nb.get(u)
        if y is None or isinstance(x, gt.IR):
            continue
        ctx.count("node_level_checks")
        both_ways(ctx, x, y, True, "node:" + world.kind(gt, x),
                  "equal copies of a %s" % world.kind(gt, x))
        if not x.deep_eq(x):
            raise Discrepancy("C18", "not-reflexive:" + world.kind(gt, x),
                              "x.deep_eq(x) is False", {})


def run(ctx):
    import gtirb

    def one(case):
        rnd = case.rnd
        sp = gspec.gen_spec(rnd, gtirb, rnd.choice(
            ["wide", "wide", "mixed", "refs"]))
        case.ops = [{"spec": sp}]
        na_spec = gspec.normalize(sp, with_aux_values=False)
        a, na = irbuild.build(sp, gtirb, rnd)
        # equal copy, independently constructed
        if rnd.random() < 0.5:
            b, nb = irbuild.build(shuffled(sp, rnd), gtirb, rnd)
            ctx.count("equal_pairs:independent_construction")
        else:
            b = irio.load(gtirb, irio.save(a))
            nb = {n.uuid.hex: n for n in world.reachable(gtirb, b)}
            ctx.count("equal_pairs:via_save_load")
        ctx.count("cases")
        ctx.count("equal_pairs")
        if gspec.nontrivial(sp):
            ctx.seen("nontrivial", (na_spec, "equal"))
        both_ways(ctx, a, b, True, "equal-copies", "independently built "
                  "equal IRs")
        if not a.deep_eq(a):
            raise Discrepancy("C18", "not-reflexive:IR",
                              "ir.deep_eq(ir) is False", {})
        both_ways(ctx, a.cfg, b.cfg, True, "equal-copies:cfg",
                  "CFGs of equal IRs")
        node_level(ctx, gtirb, na, nb)
        # arguments of another kind (or no node at all) are never equal and
        # never make deep_eq raise
        objs = list(na.values())
        for x in rnd.sample(objs, min(len(objs), 6)):
            others = [y for y in rnd.sample(objs, min(len(objs), 6))
                      if type(y) is not type(x)] + [None, 42, "x", a.cfg]
            for y in others:
                if x is a and y is a.cfg:
                    pass
                ctx.count("cross_kind_checks")
                try:
                    r = x.deep_eq(y)
                except Exception as e:
                    raise Discrepancy(
                        "C18", "raises-on-other-kind:%s:%s" % (
                            world.kind(gtirb, x), type(e).__name__),
                        "%s.deep_eq(%s) raised %s" % (
                            world.kind(gtirb, x), type(y).__name__,
                            type(e).__name__), {})
                if r is not False:
                    raise Discrepancy(
                        "C18", "equal-to-other-kind:%s" % world.kind(
                            gtirb, x),
                        "%s.deep_eq(%s) is %r" % (world.kind(gtirb, x),
                                                  type(y).__name__, r), {})
        # perturbations
        ps = perturb.perturbations(sp, rnd, gtirb)
        rnd.shuffle(ps)
        # differences in the containment tree alone are few among hundreds
        # of attribute edits: try them first
        # (and a quarter of the equal-hash integer twins with them)
        ps.sort(key=lambda lt: not (lt[0].startswith(
            ("tree:", "expr.symbols-exchanged", "exchange:")) or (
                lt[0].endswith(":hash-twin") and rnd.random() < 0.25)))
        done = 0
        for label, thunk in ps:
            if done >= ctx.params.get("perturbations_per_case", 40):
                break
            sp2 = thunk()
            if sp2 is None:
                continue
            done += 1
            n2 = gspec.normalize(sp2, with_aux_values=False)
            expected = (n2 == na_spec)
            case.ops = [{"spec": sp, "perturbation": label}]
            try:
                c, nc = irbuild.build(shuffled(sp2, rnd), gtirb, rnd)
            except Exception as e:
                ctx.count("perturbation_unbuildable")
                ctx.note("perturbation %s could not be built: %s"
                         % (label, type(e).__name__))
                continue
            ctx.count("cases")
            ctx.count("perturbed_pairs")
            ctx.seen("perturbation_labels", label)
            if label.startswith(("tree:", "exchange:", "expr.symbols-ex")):
                ctx.count("perturbation:" + label)
            if label.endswith(":hash-twin"):
                ctx.count("perturbation:equal-hash-integer")
            ctx.seen("nontrivial", (na_spec, label, n2))
            if expected:
                ctx.count("expected_true_despite_change")
            both_ways(ctx, a, c, expected, label,
                      "IRs differing by perturbation '%s'" % label)
            # the perturbed node itself, compared at node level
            if not expected and "uuid" not in label:
                for u, x in na.items():
                    y = nc.get(u)
                    if y is None or isinstance(x, gtirb.IR):
                        continue
                    if type(x) is type(y) and isinstance(
                            x, (gtirb.Module,)):
                        md_a = [m for m in na_spec["modules"]
                                if m["uuid"] == u]
                        md_c = [m for m in n2["modules"] if m["uuid"] == u]
                        if md_a and md_c and md_a != md_c and \
                                not label.startswith(("edge", "ir.")):
                            ctx.count("node_level_checks")
                            both_ways(ctx, x, y, False, label + "@module",
                                      "modules differing by '%s'" % label)
        # comparisons are repeated on the *same* objects after edits: the
        # IR compared above is edited through public attributes (including
        # a node taken out, given another UUID and put back) and must then
        # equal a fresh build of the edited description, and no longer the
        # old copy
        if rnd.random() < 0.5:
            a2, na2 = irbuild.build(sp, gtirb, rnd)
            both_ways(ctx, a2, b, True, "equal-copies", "equal IRs")
            sp3, edits = irbuild.mutate_live(rnd, gtirb, sp, na2, {},
                                             rnd.randint(1, 4))
            if edits:
                lab = "after-live-edit:" + "+".join(sorted(
                    {e.split(":")[0] for e in edits}))
                case.ops = [{"spec": sp, "live_edits": edits}]
                c3, _ = irbuild.build(shuffled(sp3, rnd), gtirb, rnd)
                ctx.count("live_edit_pairs")
                both_ways(ctx, a2, c3, True, lab,
                          "an IR compared, edited in place (%s) and "
                          "compared with a fresh build of what it is now"
                          % ", ".join(edits))
                same = gspec.normalize(sp3, with_aux_values=False) == \
                    na_spec  # an "edit" may assign the value already there
                both_ways(ctx, a2, b, same, lab + ":vs-old-copy",
                          "an IR edited in place (%s) and its old copy"
                          % ", ".join(edits))
        # a detached interval (no IR, so no UUID table to keep) whose
        # block gets another UUID in place between two comparisons
        if rnd.random() < 0.3:
            def mk(us):
                bi = gtirb.ByteInterval(size=64, uuid=us[0])
                for i, u in enumerate(us[1:]):
                    (gtirb.CodeBlock if i % 2 else gtirb.DataBlock)(
                        offset=i, size=1, uuid=u, byte_interval=bi)
                return bi
            import uuid as _u
            us = [_u.UUID(int=rnd.getrandbits(128))
                  for _ in range(rnd.randint(3, 7))]
            x, y = mk(us), mk(us)
            both_ways(ctx, x, y, True, "detached-interval", "equal "
                      "detached intervals")
            k = rnd.randrange(1, len(us))
            new = _u.UUID(int=rnd.getrandbits(128))
            for b_ in x.blocks:
                if b_.uuid == us[k]:
                    b_.uuid = new
            us2 = list(us)
            us2[k] = new
            ctx.count("detached_interval_uuid_edits")
            both_ways(ctx, x, mk(us2), True,
                      "detached-interval:block-uuid-changed-in-place",
                      "a detached interval one of whose blocks got another "
                      "UUID, and a fresh equal interval")
            both_ways(ctx, x, y, False,
                      "detached-interval:block-uuid-changed-in-place:old",
                      "a detached interval one of whose blocks got another "
                      "UUID, and its old copy")
        if case.index % 101 == 0:
            ctx.sample({"summary": gspec.summary(sp),
                        "perturbations_available": len(ps),
                        "labels_head": sorted({l for l, _ in ps})[:12]})

    for case in ctx.cases("pairs", ctx.params.get("n_pairs", 200)):
        ctx.run_case(case, one)
