"""C16 - owning collections behave like the built-in list, set and dict.

Lock-step monitor: every call of the MutableSequence / MutableSet /
MutableMapping interfaces (incl. mixin methods) on ir.modules, the five node
sets and symbolic_expressions is mirrored on the built-in type over the same
elements; return value, exception type and resulting contents are compared
(modulo move-instead-of-duplicate), and the world check runs after every
call, also after calls that raised."""
from .. import mapping_engine
from . import c03

META = {
    "rule": "stream 'hist': ownership-engine histories weighted towards "
            "collection calls with members, non-members and nodes owned "
            "elsewhere (set: add/discard/remove/pop/clear/update with 0-2 "
            "iterables/|=/-=/^=/&=, |,&,-,^ and reflected forms, "
            "comparisons, isdisjoint, in, len, iter; list: append/insert/"
            "extend/+=/del item+slice/item+slice assignment incl. extended "
            "slices/pop/remove/clear/reverse/index/count/slicing/reversed); "
            "stream 'map': symbolic_expressions vs dict (item set/get/del, "
            "pop with/without default, popitem, setdefault, update with "
            "mapping/pairs, clear, views, ==, iteration order by offset, "
            "whole-mapping assignment). Non-trivial = every history; "
            "distinct = hash of the operation list.",
    "reach": {"world_checks": 3000, "c16:set_query_comparisons": 1200,
              "c16:list_ops:plain": 2000,
              "c16:list_ops:value-already-in-same-list": 80,
              "c16:list_ops:value-owned-by-other-ir": 80,
              "c16:list_ops_raising": 200,
              "c16:list_ops_unusable_index_raising": 40, "map:ops": 5000,
              "#op_kinds": 100},
    "assumptions": [
        "index arguments that are not integers, are integers only through "
        "__index__, or lie beyond ssize_t are judged by C16's last clause "
        "alone (a failed call changes nothing, a successful one equals the "
        "built-in's): which exception CPython raises for them is not "
        "decided",
        "same-list re-insertion into ir.modules is judged by the weak "
        "contract: no exception the built-in would not raise, elements = "
        "built-in result de-duplicated, untouched elements keep their "
        "relative order, world check passes; the same holds for a value given "
        "twice in one call",
        "set.pop / dict.popitem may return any present element; binary set "
        "operands are plain sets; mapping keys are non-negative ints",
    ],
}


def run(ctx):
    import gtirb
    c03.run(ctx, "C16")
    for case in ctx.cases("map", ctx.params.get("n_map", 150)):
        ctx.run_case(case, lambda c: mapping_engine.run_history(
            ctx, c, gtirb, c.rnd.choice([30, 60, 120])))
