"""C06 - interval and section lookups and section extents equal a fresh
scan.  Layout engine with emphasis on interval address/size edits to and
from None, coinciding and empty intervals, moves, remove/re-add, load;
Section.address/size read after every operation."""
from . import c05

META = {
    "rule": "layout histories weighted towards interval address/size edits "
            "(incl. to and from None), interval moves between sections, "
            "removal and re-adding, section/module moves, save->load; "
            "byte_intervals_on/at at section/module/IR scope and "
            "sections_on/at at module/IR scope against the scan oracle; "
            "Section.address/size against (min address, max end - min "
            "address) after every operation. Non-trivial = every history; "
            "distinct = hash of the operation list.",
    "reach": {"oracle_comparisons": 100000, "nonempty_expectations": 5000,
              "extent_class:empty": 500, "extent_class:some-unaddressed": 500,
              "extent_class:all-addressed": 500, "extent_class:single": 500,
              "edit_then_lookup:iv_addr": 300, "edit_then_lookup:mv_iv": 300,
              "regime:far": 20},
    "assumptions": ["as C05"],
}


def run(ctx):
    c05.run(ctx, "C06", focus="C06")


def replay(ctx, rec):
    c05.replay(ctx, rec)
