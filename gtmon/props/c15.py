"""C15 - AuxData type names parse exactly per the grammar.

Monitor: differential of gtirb.serialization.Serialization._parse_type (and,
on a sample, the public decode() entry) against the reference recogniser
gtmon.reftypes on (a) the complete set of strings over {a,b,<,>,','} up to a
length bound and (b) grammar-generated names and their near misses.
"""
import io
import itertools
import zlib

from .. import reftypes
from ..ctx import Discrepancy

META = {
    "rule": "stream 'enum': every string over the alphabet {a,b,<,>,','} "
            "up to length L (quick 8, thorough 11), each visited exactly "
            "once (distinct by construction, counted), and every string over "
            "{e-acute, blank, newline, <, >, ','} up to length 6 (thorough "
            "7); stream 'gen': random "
            "grammar trees (depth<=60, <=120 siblings, recursion path cost "
            "<=400) printed to names, plus single-token mutations. "
            "Non-trivial = contains at least one delimiter character; "
            "distinct = the string itself.",
    "reach": {"accepted": 200, "rejected": 200, "gen:accepted": 50,
              "gen:mutants_rejected": 50, "public_decode_checked": 100},
    "assumptions": [
        "the reference recogniser gtmon/reftypes.py states the grammar "
        "correctly (it is 40 lines, iterative, and checked by printing every "
        "accepted tree back to the input)",
        "inputs stay below CPython's recursion limit; behaviour beyond it "
        "is interpreter resource exhaustion and is not decided",
    ],
}

ALPHA = "ab<>,"
NAMES = ["a", "b", "string", "mapping", "sequence", "uint64_t", "UUID",
         "x y", " ", "\n", "é", "日本", "0", "tuple", "variant", "a.b",
         "\U0001F600", "Offset", "set", "-", "()", "[]", "a b c", "\t",
         "int8_t", "\x00",
         # characters that mean something to string formatting, regular
         # expressions or a shell, in case a name ever passes through one
         "%s", "100%", "%(key)s", "%%", "%d%r", "{0}", "{}", "{name}", "\\",
         "'", '"', "$x", "\\n", "a%sb", "*", "+", "?", "[^", "(", "|", "^$",
         ".*", "\\d"]


def to_tuple(t):
    return (t.name, [to_tuple(c) for c in t.subtypes])


def check_one(ctx, s, stream, case=None):
    from gtirb.serialization import Serialization, TypeNameError

    ref = reftypes.parse(s)
    got, outcome = None, "ok"
    parser = getattr(Serialization, "_parse_type", None)
    if parser is None:
        # the private entry point moved: judge through the public one only
        ctx.count("private_parser_missing")
        ctx.count("accepted" if ref is not None else "rejected")
        ctx.count("oracle_comparisons")
        check_public(ctx, s)
        return ref is not None
    try:
        got = parser(s)
    except TypeNameError:
        outcome = "TypeNameError"
    except RecursionError:
        raise
    except Exception as e:  # any other exception is a violation
        outcome = type(e).__name__
    ctx.count("oracle_comparisons")
    if ref is None:
        ctx.count("rejected")
        if outcome == "ok":
            raise Discrepancy("C15", "accepts-non-grammar-string",
                              "accepted %r, which the grammar does not "
                              "generate" % s[:200],
                              {"input": s, "tree": repr(to_tuple(got))[:500]})
        if outcome != "TypeNameError":
            raise Discrepancy("C15", "wrong-exception:" + outcome,
                              "rejected %r with %s instead of TypeNameError"
                              % (s[:200], outcome), {"input": s})
    else:
        ctx.count("accepted")
        if outcome != "ok":
            raise Discrepancy("C15", "rejects-grammar-string:" + outcome,
                              "rejected %r (%s), which the grammar generates"
                              % (s[:200], outcome), {"input": s})
        gt = to_tuple(got)
        if gt != ref:
            raise Discrepancy("C15", "wrong-tree",
                              "wrong tree for %r" % s[:200],
                              {"input": s, "got": repr(gt)[:800],
                               "want": repr(ref)[:800]})
        if reftypes.show(gt) != s:
            raise Discrepancy("C15", "print-roundtrip",
                              "printing the tree of %r does not give it back"
                              % s[:200], {"input": s})
    return ref is not None


_MARK = object()
_MARKER = []


def _marker_codec():
    if not _MARKER:
        from gtirb.serialization import Codec

        class Marker(Codec):
            @staticmethod
            def decode(raw_bytes, *a, **k):
                return _MARK

            @staticmethod
            def encode(out, item, *a, **k):
                pass
        _MARKER.append(Marker)
    return _MARKER[0]


def check_public(ctx, s):
    """TypeNameError from the public decode() iff the grammar rejects."""
    from gtirb.serialization import Serialization, TypeNameError

    ref = reftypes.parse(s)
    ser = Serialization()
    # half of the time a codec is registered, the documented way, under the
    # whole string (a key of the table may be any string, the grammar's
    # *names* never hold a delimiter): acceptance is still the grammar's,
    # and the marker codec may only ever be reached when the whole string
    # is one plain name
    marked = zlib.crc32(s.encode("utf-8", "surrogatepass")) % 2 == 0
    if marked:
        ser.codecs[s] = _marker_codec()
        ctx.count("public_checked_with_codec_registered_under_the_string")
    raised = None
    got = None
    try:
        got = ser.decode(b"", s)
    except TypeNameError:
        raised = "TypeNameError"
    except RecursionError:
        raise
    except Exception as e:
        raised = type(e).__name__
    ctx.count("public_decode_checked")
    if ref is None and raised != "TypeNameError":
        raise Discrepancy("C15", "public-decode-accepts:" + str(raised),
                          "Serialization.decode(b'', %r) did not raise "
                          "TypeNameError (%s)" % (s[:200], raised),
                          {"input": s})
    if ref is not None and raised == "TypeNameError":
        raise Discrepancy("C15", "public-decode-rejects",
                          "Serialization.decode(b'', %r) raised "
                          "TypeNameError for a grammatical name" % s[:200],
                          {"input": s})
    if marked and got is _MARK and any(c in s for c in "<>,"):
        raise Discrepancy("C15", "public-decode-wrong-tree:whole-string-"
                          "taken-as-a-name",
                          "Serialization.decode(b'', %r) reached the codec "
                          "registered under the whole string: the tree used "
                          "was a single name holding delimiters" % s[:200],
                          {"input": s})
    # encode() entry: the type name is parsed before any value is looked at
    raised = None
    try:
        ser.encode(io.BytesIO(), object(), s)
    except TypeNameError:
        raised = "TypeNameError"
    except RecursionError:
        raise
    except Exception as e:
        raised = type(e).__name__
    ctx.count("public_encode_checked")
    if ref is None and raised != "TypeNameError":
        raise Discrepancy("C15", "public-encode-accepts:" + str(raised),
                          "Serialization.encode(.., %r) did not raise "
                          "TypeNameError (%s)" % (s[:200], raised),
                          {"input": s})
    if ref is not None and raised == "TypeNameError":
        raise Discrepancy("C15", "public-encode-rejects",
                          "Serialization.encode(.., %r) raised "
                          "TypeNameError for a grammatical name" % s[:200],
                          {"input": s})


def gen_tree(rnd, max_depth, max_sibs, budget=250):
    """Random grammar tree with bounded recursion path cost."""
    shape = rnd.choice(["bushy", "deep", "wide", "mixed"])
    count = [0]

    def mk(depth, cost):
        count[0] += 1
        name = rnd.choice(NAMES)
        if depth >= max_depth or count[0] >= budget or cost > 380:
            return (name, [])
        if shape == "deep":
            nk = 1 if rnd.random() < 0.93 else rnd.randint(0, 3)
        elif shape == "wide":
            nk = rnd.randint(0, max_sibs) if depth < 2 else 0
        elif shape == "bushy":
            nk = rnd.choice([0, 0, 1, 2, 2, 3, 4])
        else:
            nk = rnd.choice([0, 0, 0, 1, 1, 2, 3, rnd.randint(0, 12)])
        kids = []
        for i in range(nk):
            if count[0] >= budget or cost + i + 1 > 390:
                break
            kids.append(mk(depth + 1, cost + i + 1))
        return (name, kids)

    return mk(1, 1)


def mutate(rnd, s):
    k = rnd.randrange(12)
    pos = rnd.randrange(len(s) + 1)
    dpos = [i for i, c in enumerate(s) if c in "<>,"]
    if k == 0 and dpos:  # drop a delimiter
        i = rnd.choice(dpos)
        return s[:i] + s[i + 1:]
    if k == 1 and dpos:  # duplicate a delimiter
        i = rnd.choice(dpos)
        return s[:i] + s[i] + s[i:]
    if k == 2 and len(dpos) >= 2:  # swap two delimiters
        i, j = rnd.sample(dpos, 2)
        t = list(s)
        t[i], t[j] = t[j], t[i]
        return "".join(t)
    if k == 3:
        return s + rnd.choice(["x", ">", "<", ",", "<a>", ",b", ">x", "<>"])
    if k == 4:
        return rnd.choice([">", "<", ",", ""]) + s
    if k == 5:  # insert delimiter anywhere
        return s[:pos] + rnd.choice("<>,") + s[pos:]
    if k == 6 and dpos:  # replace a delimiter by another
        i = rnd.choice(dpos)
        return s[:i] + rnd.choice("<>,") + s[i + 1:]
    if k == 7:  # empty argument
        return s[:pos] + rnd.choice(["<>", ",,", "<,", ",>"]) + s[pos:]
    if k == 8:  # truncate
        return s[:pos]
    if k == 9:  # cut the head
        return s[pos:]
    if k == 10:  # join two names
        return s + rnd.choice([",", "<", ">"]) + s
    return s[:pos] + "a" + s[pos:]


def run(ctx):
    L = ctx.params.get("enum_len", 8)
    # ---- (a) complete enumeration, partitioned over workers ------------
    if ctx.only_case is None:
        idx = 0
        nontriv = 0
        pub_stride = ctx.params.get("public_stride", 97)
        for n in range(0, L + 1):
            for tup in itertools.product(ALPHA, repeat=n):
                idx += 1
                if idx % ctx.nworkers != ctx.worker:
                    continue
                s = "".join(tup)
                ctx.count("cases")
                ctx.count("enum:strings")
                if "<" in s or ">" in s or "," in s:
                    nontriv += 1
                try:
                    acc = check_one(ctx, s, "enum")
                    if acc:
                        ctx.count("enum:accepted")
                        if len(ctx.samples) < 2 and n >= 6:
                            ctx.sample({"stream": "enum", "input": s,
                                        "verdict": "accepted"})
                    if idx % pub_stride == 0:
                        check_public(ctx, s)
                except Discrepancy as d:
                    ctx.violation(d.prop, d.mechanism, d.what, None,
                                  d.detail)
        # second complete enumeration over an alphabet with a blank, a
        # non-ASCII letter and a newline as name characters (shorter bound)
        L2 = ctx.params.get("enum2_len", 6)
        for n in range(1, L2 + 1):
            for tup in itertools.product("é \n<>,", repeat=n):
                idx += 1
                if idx % ctx.nworkers != ctx.worker:
                    continue
                s = "".join(tup)
                ctx.count("cases")
                ctx.count("enum2:strings")
                if "<" in s or ">" in s or "," in s:
                    nontriv += 1
                try:
                    if check_one(ctx, s, "enum2"):
                        ctx.count("enum2:accepted")
                    if idx % pub_stride == 0:
                        check_public(ctx, s)
                except Discrepancy as d:
                    ctx.violation(d.prop, d.mechanism, d.what, None,
                                  d.detail)
        ctx.count("distinct_nontrivial_counted", nontriv)
        ctx.count("enum:max_len_completed:%d" % L, 1 if ctx.worker == 0 else 0)

    # ---- (b) grammar-generated names and near misses -------------------
    def one(case):
        rnd = case.rnd
        t = gen_tree(rnd, rnd.choice([3, 6, 20, 60]),
                     rnd.choice([3, 12, 120]))
        if rnd.random() < 0.03:
            # a comb: a few parameterised members, then a long run of plain
            # names (as the table types of real files have, only longer),
            # possibly one level down
            run = [(rnd.choice(NAMES), []) for _ in range(
                rnd.choice([200, 251, 260, 300, 340]))]
            head = [gen_tree(rnd, 3, 3, budget=12)
                    for _ in range(rnd.randint(0, 2))]
            tail = [gen_tree(rnd, 2, 2, budget=6)
                    for _ in range(rnd.choice([0, 0, 1]))]
            t = (rnd.choice(NAMES), head + run + tail)
            if rnd.random() < 0.4:
                t = (rnd.choice(NAMES), [(rnd.choice(NAMES), []), t])
            ctx.count("gen:combs")
        elif rnd.random() < 0.03:
            # many bracket pairs in one name: a run of parameterised
            # members, or a chain of single-parameter types, around 2^8
            n = rnd.choice([200, 255, 256, 257, 258, 300])
            if rnd.random() < 0.5:
                t = (rnd.choice(NAMES), [
                    (rnd.choice(NAMES), [(rnd.choice(NAMES), [])])
                    for _ in range(n)])
            else:
                t = (rnd.choice(NAMES), [])
                for _ in range(n):
                    t = (rnd.choice(NAMES), [t])
            ctx.count("gen:many_brackets")
        s = reftypes.show(t)
        case.ops = [{"input": s}]
        ctx.count("cases")
        ctx.count("gen:trees")
        ctx.seen("nontrivial", s)
        ctx.seen("gen_depths", reftypes.depth(t))
        try:
            ok0 = check_one(ctx, s, "gen", case)
            if ok0:
                check_public(ctx, s)
        except RecursionError:
            # the interpreter's recursion limit, not the grammar, decided:
            # outside what C15 states (see META assumptions)
            ctx.count("gen:recursion_limit_reached")
            return
        if not ok0:
            raise Discrepancy("C15", "harness-generated-invalid-name",
                              "harness bug: generated name rejected by "
                              "reference", {"input": s})
        ctx.count("gen:accepted")
        if case.index % 50 == 0:
            ctx.sample({"stream": "gen", "input": s[:300],
                        "depth": reftypes.depth(t), "nodes": reftypes.size(t)})
        for _ in range(6):
            m = mutate(rnd, s)
            if rnd.random() < 0.3:
                m = mutate(rnd, m)
            case.ops = [{"input": m}]
            ctx.count("cases")
            ctx.seen("nontrivial", m)
            try:
                ok = check_one(ctx, m, "gen", case)
                ctx.count("gen:mutants_accepted" if ok
                          else "gen:mutants_rejected")
                if rnd.random() < 0.5:
                    check_public(ctx, m)
            except RecursionError:
                ctx.count("gen:recursion_limit_reached")

    for case in ctx.cases("gen", ctx.params.get("n_gen", 1500)):
        ctx.run_case(case, one)


def replay(ctx, rec):
    s = rec.get("detail", {}).get("input")
    if s is None and rec.get("history"):
        s = rec["history"][-1]["input"]

    class C:
        ops = []

        def ident(self):
            return rec.get("case", {})

    try:
        print("input:", repr(s)[:500], "reference:", reftypes.parse(s))
        check_one(ctx, s, "replay")
        check_public(ctx, s)
    except Discrepancy as d:
        ctx.violation(d.prop, d.mechanism, d.what, None, d.detail)
