"""C14 - AuxData tables are never silently lost, staled or rewritten.

Monitor: files assembled directly as messages (known, unknown and partially
unknown type names; canonical and non-canonical but decodable bytes), loaded;
each table then goes through a random history class {untouched, read,
mutated in place, data assigned, type renamed (read or unread)}; the IR is
saved, the written message parsed with the generated classes and every
table's (type_name, bytes) compared with what its history class demands;
the saved file is loaded again and the game continues for up to 4
generations, at IR and module level."""
import copy
import uuid as _uuid

from .. import auxgen, codecmon, contract, foreign, irio, refcodec, reftypes
from ..ctx import Discrepancy

META = {
    "rule": "3-8 tables per file at IR and module level: supported types "
            "(C07 generator) with canonical bytes or non-canonical decodable "
            "bytes (set/mapping listing an element twice), unknown type "
            "names with arbitrary bytes, partially unknown types (unknown "
            "name at depth 1-3) whose known parts are well formed; per "
            "generation each table draws one of leave/read/mutate in place/"
            "assign data/assign type_name; up to 4 save/load generations. "
            "Non-trivial = a table that was touched or has a non-canonical "
            "or unknown encoding; distinct = hash of (type, bytes, action).",
    "reach": {"table_checks": 3000, "class:untouched": 500, "class:read": 300,
              "class:mutated": 200, "class:assigned": 200,
              "class:renamed-unread": 100, "class:renamed-read": 100,
              "class:unknown-read": 200, "class:unknown-untouched": 200,
              "noncanonical_tables": 100, "stale_bytes_would_differ": 500,
              "generations:4": 50, "twin_tables": 200, "failed_saves": 300,
              "spaced_type_name_tables": 100},
    "assumptions": [
        "new type names are supported and compatible with the value "
        "(integer widening, float->double, sequence->set)",
        "bytes of the known parts of partially unknown types are well "
        "formed; tables of unknown type are only left alone or read",
    ],
}
WIDEN = {"uint8_t": "uint16_t", "uint16_t": "uint32_t",
         "uint32_t": "uint64_t", "uint64_t": "Addr", "Addr": "uint64_t",
         "int8_t": "int16_t", "int16_t": "int32_t", "int32_t": "int64_t",
         "float": "double"}


def widen(rnd, t):
    """A different supported type the same Python value also fits."""
    name, kids = t
    if name in WIDEN and rnd.random() < 0.8:
        return (WIDEN[name], [])
    if name == "sequence" and rnd.random() < 0.3 and \
            hashable_type(kids[0]):
        return ("set", [widen(rnd, kids[0])])
    return (name, [widen(rnd, k) for k in kids])


def retag(n, t_old, t_new):
    """Neutral value of the same Python value under a widened type."""
    name, kids = t_old
    name2, kids2 = t_new
    if name == "float" and name2 == "double":
        return ("f64", refcodec.f64_bits(refcodec.f32_from_bits(n[1])))
    if name in ("sequence", "set"):
        tag = "seq" if name2 == "sequence" else "set"
        return (tag, [retag(x, kids[0], kids2[0]) for x in n[1]])
    if name == "mapping":
        return ("map", [(retag(k, kids[0], kids2[0]),
                         retag(x, kids[1], kids2[1])) for k, x in n[1]])
    if name == "tuple":
        return ("tup", [retag(x, a, b) for x, a, b in zip(n[1], kids,
                                                         kids2)])
    if name == "variant":
        return ("var", n[1], retag(n[2], kids[n[1]], kids2[n[1]]))
    return n


def hashable_type(t):
    name, kids = t
    if name in ("sequence", "set", "mapping", "variant"):
        return False
    return all(hashable_type(k) for k in kids)


def pool_codecs():
    import gtirb
    return getattr(gtirb.AuxData.serializer, "codecs", {})


def unknown_type(rnd, depth):
    """Type tree with one unknown codec name at the given depth, and bytes:
    reference encoding of the known prefix that is decoded before the
    unknown name is reached, followed by arbitrary bytes."""
    # names this API has no codec for, judged by its public codec table
    # at run time (a release that adds one of them must not alarm)
    have = set(pool_codecs())
    unk = rnd.choice([n for n in ("foo", "my_type", "Addr2", "uint128_t",
                                  "string ", " uint64_t", "Uuid")
                      if n not in have] or ["no such codec"])
    q = lambda v: refcodec._u64(v)
    junk = bytes(rnd.randrange(256) for _ in range(rnd.randint(0, 12)))
    if depth == 0:
        return (unk, []), junk
    if depth == 1:
        k = rnd.randrange(4)
        if k == 0:
            n = rnd.choice([0, 1, 2])
            return ("sequence", [(unk, [])]), q(n) + (junk if n else b"")
        if k == 1:
            return ("tuple", [("string", []), (unk, [])]), \
                q(1) + b"a" + junk
        if k == 2:
            i = rnd.randrange(2)
            body = q(1) + b"z" if i == 0 else junk
            return ("variant", [("string", []), (unk, [])]), q(i) + body
        return ("mapping", [("uint8_t", []), (unk, [])]), \
            q(1) + b"\x07" + junk
    inner_t, inner_b = unknown_type(rnd, depth - 1)
    k = rnd.randrange(3)
    if k == 0:
        return ("sequence", [inner_t]), q(1) + inner_b
    if k == 1:
        return ("mapping", [("string", []), inner_t]), \
            q(1) + q(1) + b"k" + inner_b
    return ("tuple", [("int16_t", []), inner_t]), b"\x01\x00" + inner_b


def reaches_unknown(raw, t):
    """Does a decoder reach the unknown name (vs. decode fully)?"""
    try:
        refcodec.decode(raw, t)
        return False
    except refcodec.RefError:
        return True


def noncanonical(rnd, pool):
    """(type, bytes) for decodable but non-canonical bytes: a set / mapping
    listing an element / key twice, a bool byte other than 0/1, trailing
    bytes after a complete value."""
    q = refcodec._u64
    ints = ["uint8_t", "int8_t", "uint16_t", "int32_t", "uint64_t", "Addr",
            "int64_t", "uint32_t"]
    it = rnd.choice(ints)
    w, signed = refcodec.INTS[it]
    x = rnd.randrange(0, 100)
    xb = refcodec._int_bytes(x, w, signed)
    yb = refcodec._int_bytes(x + 1, w, signed)
    k = rnd.randrange(6)
    if k == 0:
        return ("set", [(it, [])]), q(3) + xb + xb + yb
    if k == 1:
        return ("mapping", [(it, []), ("string", [])]), \
            q(2) + xb + q(1) + b"a" + xb + q(1) + b"b"
    if k == 2:
        return ("sequence", [("set", [(it, [])])]), q(1) + q(2) + xb + xb
    if k == 3:
        return ("tuple", [("bool", []), (it, [])]), b"\x02" + xb
    if k == 4:
        return ("mapping", [(it, []), ("bool", [])]), \
            q(2) + xb + b"\x01" + yb + b"\x07"
    t = auxgen.gen_type(rnd, rnd.choice([0, 1, 2]))
    v = auxgen.gen_value(rnd, t, pool)
    return t, refcodec.encode(v, t) + bytes(
        rnd.randrange(256) for _ in range(rnd.randint(1, 5)))


class Table:
    def __init__(self, key, tn, raw, kind):
        self.key, self.tn, self.raw, self.kind = key, tn, raw, kind
        self.state = "untouched"
        self.lazy_type = tn  # type the loaded bytes were written under


# values the encoder cannot write, each behind at least one element it can
POISON = [
    lambda gt: ([1, 2, 2 ** 64], "sequence<uint64_t>"),
    lambda gt: ([5, -129], "sequence<int8_t>"),
    lambda gt: ({"a": 1, "b": -1}, "mapping<string,uint8_t>"),
    lambda gt: (["ok", "\ud800"], "sequence<string>"),
    lambda gt: ((1, 1e39), "tuple<int8_t,float>"),
    lambda gt: ([1, "x"], "sequence<uint8_t>"),
    lambda gt: ([gt.Variant(0, 7), gt.Variant(5, 1)],
                "sequence<variant<uint8_t,string>>"),
    lambda gt: (("k", 3), "tuple<string,UUID>"),
    lambda gt: ([1], "sequence<foo>"),
    lambda gt: ({"k": [1, None]}, "mapping<string,sequence<int64_t>>"),
]


def run(ctx):
    import gtirb
    from .. import codecmon
    codecmon.private_serialization(gtirb, ctx)

    def one(case):
        rnd = case.rnd
        pool = auxgen.Pool(gtirb, rnd)
        ctx.count("cases")
        tables = {"ir": [], "mod": []}
        for lvl in ("ir", "mod"):
            for i in range(rnd.randint(1, 4)):
                key = "%s%d" % (rnd.choice(["t", "é", "a b"]), i)
                k = rnd.random()
                if k < 0.45:
                    t = auxgen.gen_type(rnd, rnd.choice([0, 1, 2, 3]))
                    v = auxgen.gen_value(rnd, t, pool)
                    raw = refcodec.encode(v, t)
                    kind = "known"
                elif k < 0.6:
                    t, raw = noncanonical(rnd, pool)
                    kind = "noncanonical"
                    ctx.count("noncanonical_tables")
                elif k < 0.68:
                    # a supported type spelled with blanks after the commas
                    # (as other producers print it): " uint64_t" is not a
                    # name this API has a codec for, so the table is one of
                    # unknown type whose bytes happen to be meaningful
                    for _ in range(20):
                        t = auxgen.gen_type(rnd, rnd.choice([1, 2, 3]))
                        if "," in reftypes.show(t):
                            break
                    v = auxgen.gen_value(rnd, t, pool)
                    raw = refcodec.encode(v, t)
                    tn = reftypes.show(t).replace(",", rnd.choice(
                        [", ", ",  "]))  # blanks belong to the next name
                    if "," in tn:
                        ctx.count("spaced_type_name_tables")
                    tables[lvl].append(Table(key, tn, raw, "unknown"))
                    continue
                else:
                    t, raw = unknown_type(rnd, rnd.choice([0, 0, 1, 2, 3]))
                    kind = "unknown"
                tables[lvl].append(Table(key, reftypes.show(t), raw, kind))
        # byte-identical twins of a table under another key / level
        allt = [(lvl, t) for lvl, ts in tables.items() for t in ts]
        for _ in range(rnd.choice([0, 0, 1, 1, 2])):
            lvl, t = rnd.choice(allt)
            lvl2 = rnd.choice(["ir", "mod"])
            key = "twin%d" % len(tables[lvl2])
            tables[lvl2].append(Table(key, t.tn, t.raw, t.kind))
            ctx.count("twin_tables")
        data = {"uuid": "%032x" % rnd.getrandbits(128), "version": 4,
                "aux_data": {t.key: {"type_name": t.tn, "data": t.raw.hex()}
                             for t in tables["ir"]},
                "modules": [{"uuid": "%032x" % rnd.getrandbits(128),
                             "name": "m", "aux_data": {
                                 t.key: {"type_name": t.tn,
                                         "data": t.raw.hex()}
                                 for t in tables["mod"]}}],
                "cfg": {}}
        raw_file = foreign.to_bytes(gtirb, data, version_byte=4)
        case.ops = [{"tables": {lvl: [(t.key, t.tn, t.raw.hex()[:80],
                                       t.kind) for t in ts]
                                for lvl, ts in tables.items()}}]
        gens = rnd.choice([1, 2, 3, 4])
        for g in range(1, gens + 1):
            ir = irio.load(gtirb, raw_file)
            holders = {"ir": ir, "mod": ir.modules[0]}
            expect = {}
            for lvl, ts in tables.items():
                for t in ts:
                    ad = holders[lvl].aux_data[t.key]
                    tt = refcodec.parse(t.tn)
                    supported = refcodec.all_known(tt)
                    if not supported:
                        act = rnd.choice(["leave", "read", "read"])
                    else:
                        act = rnd.choice(["leave", "read", "mutate",
                                          "assign", "rename", "rename_read"])
                    case.ops.append({"gen": g, "level": lvl, "key": t.key,
                                     "type": t.tn, "action": act})
                    if act == "leave":
                        cls = "untouched" if supported else \
                            "unknown-untouched"
                        expect[(lvl, t.key)] = (cls, t.tn, t.raw, None)
                        continue
                    if not supported:
                        d = ad.data
                        if reaches_unknown(t.raw, tt):
                            # evidence only: C14 asks for unchanged bytes,
                            # not for a particular Python type
                            ctx.count("unknown_reached:" + (
                                "blob" if isinstance(
                                    d, gtirb.serialization.UnknownData)
                                else "decoded"))
                        expect[(lvl, t.key)] = ("unknown-read", t.tn, t.raw,
                                                None)
                        continue
                    model = refcodec.decode(t.raw, tt)[0]
                    if act == "read":
                        v = ad.data
                        cls = "read"
                    elif act == "mutate":
                        v = ad.data
                        if isinstance(v, list):
                            w = auxgen.gen_value(rnd, tt[1][0], pool)
                            v.append(w)
                            model = ("seq", model[1] + [
                                refcodec.neutral(w, tt[1][0])])
                        elif isinstance(v, set):
                            for _ in range(5):
                                w = auxgen.gen_value(rnd, tt[1][0], pool,
                                                     True)
                                if w not in v:
                                    break
                            v.add(w)
                            model = ("set", model[1] + [
                                refcodec.neutral(w, tt[1][0])])
                        elif isinstance(v, dict):
                            kk = auxgen.gen_value(rnd, tt[1][0], pool, True)
                            vv = auxgen.gen_value(rnd, tt[1][1], pool)
                            v[kk] = vv
                            model = ("map", model[1] + [
                                (refcodec.neutral(kk, tt[1][0]),
                                 refcodec.neutral(vv, tt[1][1]))])
                        elif auxgen.mutate_nested(rnd, v, tt, pool):
                            # a container somewhere inside a tuple / variant
                            # edited in place
                            ctx.count("nested_in_place_edits")
                            model = refcodec.neutral(v, tt)
                        else:  # immutable value: replace it
                            nv = auxgen.gen_value(rnd, tt, pool)
                            ad.data = nv
                            model = refcodec.neutral(nv, tt)
                        cls = "mutated"
                    elif act == "assign":
                        nv = auxgen.gen_value(rnd, tt, pool)
                        ad.data = nv
                        model = refcodec.neutral(nv, tt)
                        cls = "assigned"
                    else:
                        if act == "rename_read":
                            ad.data
                        nt = widen(rnd, tt)
                        if nt == tt:
                            cls = "read" if act == "rename_read" else \
                                "untouched"
                            if cls == "untouched":
                                expect[(lvl, t.key)] = (cls, t.tn, t.raw,
                                                        None)
                                continue
                        else:
                            ad.type_name = reftypes.show(nt)
                            t.tn = reftypes.show(nt)
                            model = retag(model, tt, nt)
                            tt = nt
                            cls = "renamed-read" if act == "rename_read" \
                                else "renamed-unread"
                    expect[(lvl, t.key)] = (cls, t.tn, t.raw, (ad, model))
            # a save that fails half-way, after which the caller drops the
            # offending table and carries on: the tables written by the next
            # save must not carry anything over from the failed one
            if rnd.random() < 0.3:
                holder = holders[rnd.choice(["ir", "mod"])]
                bad_v, bad_t = rnd.choice(POISON)(gtirb)
                holder.aux_data["poison"] = gtirb.AuxData(bad_v, bad_t)
                case.ops.append({"gen": g, "action": "failed-save",
                                 "type": bad_t})
                try:
                    irio.save(ir)
                    ctx.count("poison_not_rejected")
                except Exception as e:
                    ctx.count("failed_saves")
                    ctx.seen("failed_save_exceptions", type(e).__name__)
                del holder.aux_data["poison"]
            # save and inspect the written message
            raw2 = irio.save(ir)
            msg = irio.parse_ir_message(gtirb, raw2)
            written = {"ir": msg.aux_data, "mod": msg.modules[0].aux_data}
            for lvl, ts in tables.items():
                if set(written[lvl].keys()) != {t.key for t in ts}:
                    raise Discrepancy(
                        "C14", "table-lost-or-invented",
                        "saved %s-level tables %s, expected %s" % (
                            lvl, sorted(written[lvl].keys()),
                            sorted(t.key for t in ts)), {})
                for t in ts:
                    cls, tn, old_raw, ad = expect[(lvl, t.key)]
                    w = written[lvl][t.key]
                    ctx.count("table_checks")
                    ctx.count("class:" + cls)
                    ctx.seen("nontrivial", (tn, old_raw, cls))
                    if w.type_name != tn:
                        raise Discrepancy(
                            "C14", "type-name:" + cls,
                            "table (%s) written with type name %r, expected "
                            "%r" % (cls, w.type_name, tn), {})
                    if cls in ("untouched", "unknown-untouched",
                               "unknown-read"):
                        if bytes(w.data) != old_raw:
                            raise Discrepancy(
                                "C14", "bytes-changed:" + cls,
                                "a table that was %s was not written back "
                                "byte for byte (type %s): %s -> %s" % (
                                    cls, tn, old_raw.hex()[:60],
                                    bytes(w.data).hex()[:60]), {})
                        t.raw = bytes(w.data)
                        continue
                    # touched, supported: encoding of the current value
                    tt = refcodec.parse(tn)
                    ad, model = ad
                    cur = ad.data
                    want_bytes = refcodec.encode(cur, tt)
                    # independent of what the implementation now holds: the
                    # harness's own model of the table's value
                    try:
                        n, pos = refcodec.decode(bytes(w.data), tt)
                        okm = pos == len(w.data) and refcodec.norm(n) == \
                            refcodec.norm(model)
                    except refcodec.RefError:
                        okm = False
                    if not okm:
                        raise Discrepancy(
                            "C14", "value-differs-from-history:" + cls,
                            "a table that was %s is written with a value "
                            "that is not the one its own history gives it "
                            "(type %s): written %s" % (
                                cls, tn, bytes(w.data).hex()[:80]), {})
                    if want_bytes != old_raw:
                        ctx.count("stale_bytes_would_differ")
                    try:
                        n, pos = refcodec.decode(bytes(w.data), tt)
                        ok = pos == len(w.data) and refcodec.norm(n) == \
                            refcodec.norm(refcodec.neutral(cur, tt))
                    except refcodec.RefError:
                        ok = False
                    if not ok or bytes(w.data) != want_bytes:
                        stale = bytes(w.data) == old_raw
                        raise Discrepancy(
                            "C14", "%s:%s" % (
                                "stale-bytes" if stale else "wrong-bytes",
                                cls),
                            "a table that was %s is written as %s instead "
                            "of the encoding of its current value under %s"
                            % (cls, "the bytes it was loaded with" if stale
                               else bytes(w.data).hex()[:60], tn), {})
                    t.raw = bytes(w.data)
            raw_file = raw2
            ctx.count("generations:%d" % g)
        if case.index % 97 == 0:
            ctx.sample({"history": case.ops[:12]})

    for case in ctx.cases("aux", ctx.params.get("n_files", 300)):
        ctx.run_case(case, one)
