"""C11 - the CFG is a set of edges with consistent adjacency views.

Lock-step monitor: every operation on ir.cfg is mirrored on a dict keyed by
(id(source), id(target), label); after every operation membership, length,
iteration, out_edges/in_edges for every node of the universe and the block
views incoming_edges/outgoing_edges are compared with the model."""
import collections

from ..ctx import Discrepancy

META = {
    "rule": "histories of 20-150 operations (add, discard, remove, pop, "
            "clear, update, |=, &=, -=, ^=, node moves between IRs) on the "
            "CFGs of two IRs over ~8 nodes (attached code blocks and "
            "proxies, detached nodes, nodes of the other IR; self-loops) "
            "and labels None / all-false / default / every type, equal-by-"
            "value but distinct label objects; full comparison after every "
            "operation. Non-trivial = every history; distinct = hash of the "
            "operation list.",
    "reach": {"state_checks": 5000, "adjacency_checks": 50000,
              "block_view_checks": 25000, "parallel_edge_states": 500,
              "op:add_present": 300, "op:discard_absent": 300,
              "op:remove_absent": 100, "op:pop_empty": 20,
              "#op_kinds": 12},
    "assumptions": [
        "block views are compared with the CFG of the IR the block is "
        "currently attached to; detached nodes must report nothing",
    ],
}


class CfgWorld:
    def __init__(self, gt, rnd, ctx, case):
        self.gt, self.rnd, self.ctx, self.case = gt, rnd, ctx, case
        self.irs = [gt.IR(), gt.IR()]
        self.mods = [gt.Module(name="m%d" % i, ir=ir)
                     for i, ir in enumerate(self.irs)]
        self.nodes = []
        self.where = {}  # node index -> ir index or None
        for i in range(rnd.randint(4, 9)):
            k = rnd.random()
            home = rnd.choice([0, 0, 0, 1, None])
            if k < 0.5:
                n = gt.ProxyBlock()
                if home is not None:
                    n.module = self.mods[home]
            else:
                n = gt.CodeBlock(size=1, offset=i)
                if home is not None:
                    s = gt.Section(name="s", module=self.mods[home])
                    bi = gt.ByteInterval(size=20, section=s)
                    n.byte_interval = bi
            self.nodes.append(n)
            self.where[i] = home
        self.model = [dict(), dict()]
        L, T = gt.Edge.Label, gt.Edge.Type
        # Edge objects that are kept and handed to later calls again (a
        # caller holding an edge and re-using it), next to fresh equal copies
        self.kept = []
        # how often the state is looked at: after every operation, after
        # about a third of them, or only at the end (lookups in between may
        # hide state carried from one call to the next)
        self.schedule = rnd.choice(["every", "every", "third", "end"])
        ctx.count("schedule:" + self.schedule)
        # 'dense' worlds draw every label the API can express (6 types x
        # conditional x direct, and no label) on very few node pairs, so
        # that a pair fills up with parallel edges
        self.dense = rnd.random() < 0.15
        if self.dense:
            ctx.count("regime:dense-pairs")
            self.nodes = self.nodes[:2]
        self.all_labels = [lambda: None] + [
            (lambda t=t, c=c, d=d: L(t, c, d))
            for t in T for c in (False, True) for d in (False, True)]
        self.labels = [lambda: None, lambda: L(T.Branch, False, False),
                       lambda: L(T.Branch), lambda: L(T.Call, True, True),
                       lambda: L(T.Fallthrough, False, True),
                       lambda: L(T.Return, True, False),
                       lambda: L(T.Syscall), lambda: L(T.Sysret, True)]
        if self.dense:
            self.labels = self.all_labels

    def nid(self, n):
        for i, x in enumerate(self.nodes):
            if x is n:
                return i
        return "?"

    def key(self, e):
        return (id(e.source), id(e.target), e.label)

    def show(self, e):
        return (self.nid(e.source), self.nid(e.target),
                None if e.label is None else tuple(
                    (e.label.type.name, e.label.conditional, e.label.direct)))

    def edge(self):
        rnd = self.rnd
        if self.kept and rnd.random() < 0.4:
            return rnd.choice(self.kept)  # the identical object again
        e = self.gt.Edge(rnd.choice(self.nodes), rnd.choice(self.nodes),
                         rnd.choice(self.labels)())
        if len(self.kept) < 10 and rnd.random() < 0.5:
            self.kept.append(e)
        return e

    def edges(self, c, nmax=3):
        rnd = self.rnd
        out = []
        present = list(self.model[c].values())
        for _ in range(rnd.randint(0, nmax)):
            if present and rnd.random() < 0.5:
                e = rnd.choice(present)
                # an equal edge built from fresh objects
                out.append(self.gt.Edge(
                    e.source, e.target, None if e.label is None else
                    self.gt.Edge.Label(e.label.type, e.label.conditional,
                                       e.label.direct)))
            else:
                out.append(self.edge())
        return out

    def fail(self, mech, what):
        raise Discrepancy("C11", mech, what,
                          {"last_ops": self.case.ops[-8:]})

    def verify(self, after):
        ctx = self.ctx
        for c, ir in enumerate(self.irs):
            cfg, model = ir.cfg, self.model[c]
            ctx.count("state_checks")
            got = collections.Counter(self.key(e) for e in cfg)
            if got != collections.Counter(model.keys()):
                self.fail("iteration:" + after,
                          "after %s iteration yields %s, the edge set is %s"
                          % (after, sorted(map(repr, (self.show(e)
                                                      for e in cfg))),
                             sorted(map(repr, (self.show(e)
                                               for e in model.values())))))
            if len(cfg) != len(model):
                self.fail("len:" + after, "len(cfg) is %d, the set has %d "
                          "edges" % (len(cfg), len(model)))
            pairs = collections.Counter((k[0], k[1]) for k in model)
            if any(v > 1 for v in pairs.values()):
                ctx.count("parallel_edge_states")
            if pairs:
                ctx.seen("max_parallel_edges", max(pairs.values()))
            for e in model.values():
                if e not in cfg:
                    self.fail("membership:" + after,
                              "edge %s is in the set but 'in' says no"
                              % (self.show(e),))
            for e in [self.edge() for _ in range(3)] + list(self.kept):
                if (e in cfg) != (self.key(e) in model):
                    self.fail("membership:" + after,
                              "'%s in cfg' is %s, the set says %s" % (
                                  self.show(e), e in cfg,
                                  self.key(e) in model))
            for i, n in enumerate(self.nodes):
                ctx.count("adjacency_checks", 2)
                out = collections.Counter(self.key(e)
                                          for e in cfg.out_edges(n))
                want = collections.Counter(k for k in model if k[0] == id(n))
                if out != want:
                    self.fail("out_edges:" + after,
                              "out_edges(node %d) differs from the edges "
                              "whose source it is" % i)
                inn = collections.Counter(self.key(e)
                                          for e in cfg.in_edges(n))
                want = collections.Counter(k for k in model if k[1] == id(n))
                if inn != want:
                    self.fail("in_edges:" + after,
                              "in_edges(node %d) differs from the edges "
                              "whose target it is" % i)
        for i, n in enumerate(self.nodes):
            home = self.where[i]
            ctx.count("block_view_checks", 2)
            if home is None:
                wo = wi = collections.Counter()
            else:
                m = self.model[home]
                wo = collections.Counter(k for k in m if k[0] == id(n))
                wi = collections.Counter(k for k in m if k[1] == id(n))
            if collections.Counter(self.key(e)
                                   for e in n.outgoing_edges) != wo:
                self.fail("block.outgoing_edges:" + after,
                          "node %d (%s).outgoing_edges differs from the "
                          "edges of its IR's CFG whose source it is" % (
                              i, "attached" if home is not None
                              else "detached"))
            if collections.Counter(self.key(e)
                                   for e in n.incoming_edges) != wi:
                self.fail("block.incoming_edges:" + after,
                          "node %d (%s).incoming_edges differs from the "
                          "edges of its IR's CFG whose target it is" % (
                              i, "attached" if home is not None
                              else "detached"))

    def step(self):
        rnd, gt = self.rnd, self.gt
        c = rnd.randrange(2)
        cfg, model = self.irs[c].cfg, self.model[c]
        op = rnd.choice(["add", "add", "add", "discard", "remove", "pop",
                         "clear", "update", "ior", "iand", "isub", "ixor",
                         "move", "query", "clone", "reuuid"])
        es = self.edges(c)
        if self.dense and rnd.random() < 0.15:
            # fill one ordered pair with all labels but a few, in one call
            a, b = rnd.choice(self.nodes), rnd.choice(self.nodes)
            labs = list(self.all_labels)
            rnd.shuffle(labs)
            es = [gt.Edge(a, b, f()) for f in labs[rnd.choice([0, 1, 1, 2]):]]
            op = rnd.choice(["update", "ior"])
            self.ctx.count("op:saturate-pair")
        if op in ("add", "discard", "remove"):
            es = (es or [self.edge()])[:1]
        self.case.ops.append({"op": op, "cfg": c,
                              "edges": [self.show(e) for e in es]})
        self.ctx.seen("op_kinds", op)
        self.ctx.count("op:" + op)
        before = cfg
        if op == "add":
            if self.key(es[0]) in model:
                self.ctx.count("op:add_present")
            r = cfg.add(es[0])
            model.setdefault(self.key(es[0]), es[0])
        elif op == "discard":
            if self.key(es[0]) not in model:
                self.ctx.count("op:discard_absent")
            r = cfg.discard(es[0])
            model.pop(self.key(es[0]), None)
        elif op == "remove":
            present = self.key(es[0]) in model
            if not present:
                self.ctx.count("op:remove_absent")
            try:
                cfg.remove(es[0])
                if not present:
                    self.fail("remove-absent:no-exception",
                              "remove() of an absent edge did not raise")
            except KeyError:
                if present:
                    self.fail("remove-present:KeyError",
                              "remove() of a present edge raised KeyError")
            model.pop(self.key(es[0]), None)
        elif op == "pop":
            if not model:
                self.ctx.count("op:pop_empty")
                try:
                    cfg.pop()
                    self.fail("pop-empty:no-exception",
                              "pop() on an empty CFG did not raise")
                except KeyError:
                    pass
            else:
                e = cfg.pop()
                if self.key(e) not in model:
                    self.fail("pop:returns-non-member",
                              "pop() returned %s, not an edge of the set"
                              % (self.show(e),))
                del model[self.key(e)]
        elif op == "clear":
            cfg.clear()
            model.clear()
        elif op == "update":
            cfg.update(rnd.choice([list, set, iter])(es))
            for e in es:
                model.setdefault(self.key(e), e)
        elif op == "ior":
            cfg |= set(es)
            for e in es:
                model.setdefault(self.key(e), e)
        elif op == "iand":
            cfg &= set(es)
            keep = {self.key(e) for e in es}
            for k in list(model):
                if k not in keep:
                    del model[k]
        elif op == "isub":
            cfg -= set(es)
            for e in es:
                model.pop(self.key(e), None)
        elif op == "ixor":
            # a plain set of *distinct* edges (set() already de-duplicates
            # equal edges because Edge compares by value)
            for e in set(es):
                k = self.key(e)
                if k in model:
                    del model[k]
                else:
                    model[k] = e
            cfg ^= set(es)
        elif op == "move":
            i = rnd.randrange(len(self.nodes))
            n = self.nodes[i]
            home = rnd.choice([0, 1, None])
            self.case.ops[-1]["node"] = i
            self.case.ops[-1]["to"] = home
            if isinstance(n, gt.ProxyBlock):
                n.module = None if home is None else self.mods[home]
            else:
                if home is None:
                    n.byte_interval = None
                else:
                    s = gt.Section(name="s", module=self.mods[home])
                    n.byte_interval = gt.ByteInterval(size=20, section=s)
            self.where[i] = home
        elif op == "reuuid":
            # a node that is not attached to any IR gets another UUID (the
            # CFG compares nodes by identity, so nothing may change)
            loose = [i for i in range(len(self.nodes))
                     if self.where[i] is None]
            if loose:
                import uuid as _uuid
                i = rnd.choice(loose)
                self.nodes[i].uuid = _uuid.UUID(int=rnd.getrandbits(128))
                self.case.ops[-1]["node"] = i
                self.ctx.count("op:reuuid_unattached_endpoint")
        elif op == "clone":
            # the other IR is replaced by one constructed from this CFG's
            # edges (the object itself, or a set / list / iterator of
            # them): a set of its own from then on
            c2 = 1 - c
            form = rnd.choice(["cfg-object", "set", "list", "iter"])
            self.case.ops[-1]["form"] = form
            arg = {"cfg-object": lambda: cfg, "set": lambda: set(cfg),
                   "list": lambda: list(cfg), "iter": lambda: iter(cfg)}[
                       form]()
            new = gt.IR(cfg=arg)
            self.mods[c2].ir = new
            self.irs[c2] = new
            self.model[c2] = dict(model)
            self.ctx.count("op:clone:" + form)
        elif op == "query":
            S = set(es)
            want = set(model.keys())
            other = {self.key(e) for e in S}
            for name, got, exp in (
                    ("==", cfg == S, want == other and len(S) == len(other)),
                    ("isdisjoint", cfg.isdisjoint(S), not (want & other)),
                    ("<=", cfg <= S, want <= other),
                    (">=", cfg >= S, want >= other)):
                if got != exp:
                    self.fail("query:" + name,
                              "cfg %s set gave %s, expected %s" % (name, got,
                                                                   exp))
            for name, res, exp in (("|", cfg | S, want | other),
                                   ("&", cfg & S, want & other),
                                   ("-", cfg - S, want - other),
                                   ("^", cfg ^ S, want ^ other)):
                if {self.key(e) for e in res} != exp:
                    self.fail("query:" + name,
                              "cfg %s set has wrong contents" % name)
        if self.schedule == "every" or (
                self.schedule == "third" and rnd.random() < 0.33):
            self.verify(op)
        else:
            # a cheap look at one thing only, through a kept object
            if self.kept and rnd.random() < 0.5:
                e = rnd.choice(self.kept)
                if (e in cfg) != (self.key(e) in model):
                    self.fail("membership:" + op,
                              "'%s in cfg' is %s right after %s, the set "
                              "says %s" % (self.show(e), e in cfg, op,
                                           self.key(e) in model))


def run(ctx):
    import gtirb

    def one(case):
        ctx.count("cases")
        w = CfgWorld(gtirb, case.rnd, ctx, case)
        w.verify("construction")
        for _ in range(case.rnd.choice([20, 40, 80, 150])):
            w.step()
        w.verify("end")
        ctx.seen("nontrivial", case.ops)
        if case.index % 97 == 0:
            ctx.sample({"ops": case.ops[:20], "total_ops": len(case.ops)})

    for case in ctx.cases("cfg", ctx.params.get("n_hist", 300)):
        ctx.run_case(case, one)
