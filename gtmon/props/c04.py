"""C04 - containment is a forest kept consistent from both ends.

Ownership engine (forest model + world check after every operation: parent
attribute <-> collection membership, derived accessors, aggregate iterators,
attribute values of every node against the model) plus an isolation probe:
separately constructed nodes never share flags, AuxData maps, attribute sets
or collections - with default arguments and with one argument object passed
to two constructors."""
from .. import ownership, world
from ..ctx import Discrepancy
from . import c03

META = {
    "rule": "stream 'hist': ownership-engine histories (all six relations "
            "moved from the child side, the collection side and by "
            "constructor, interleaved with attribute edits; every tracked "
            "attribute of every node compared with the model after every "
            "operation); stream 'iso': construction of node pairs of every "
            "class with default arguments and with a shared argument object,"
            " mutation of one through every mutable attribute. Non-trivial "
            "= every history / every isolation probe; distinct = hash of "
            "the operation list / probe.",
    "reach": {"world_checks": 5000, "c04:child_in_parent_checks": 50000,
              "c04:aggregate_checks": 50000, "c04:attribute_checks": 50000,
              "moves": 2000, "isolation_probes": 50,
              "relation:IR.modules:child-side": 20,
              "relation:IR.modules:collection-side": 20,
              "relation:IR.modules:constructor": 20,
              "relation:ByteInterval.blocks:child-side": 20,
              "relation:ByteInterval.blocks:collection-side": 20,
              "relation:ByteInterval.blocks:constructor": 20,
              "relation:Section.byte_intervals:collection-side": 20,
              "relation:Module.symbols:collection-side": 20},
    "assumptions": ["as C03"],
}


def isolation(ctx, case, gt):
    """Separately constructed nodes share no mutable state."""
    rnd = case.rnd
    F = gt.Section.Flag
    A = gt.SymbolicExpression.Attribute

    def fp(o):
        out = {}
        for k in ("flags", "attributes"):
            if hasattr(o, k):
                out[k] = sorted(repr(x) for x in getattr(o, k))
        for k in ("aux_data",):
            if hasattr(o, k):
                out[k] = sorted(getattr(o, k))
        for k in ("sections", "symbols", "proxies", "byte_intervals",
                  "blocks", "modules"):
            if hasattr(o, k) and not isinstance(o, gt.IR) or k == "modules" \
                    and isinstance(o, gt.IR):
                try:
                    out[k] = sorted(id(x) for x in getattr(o, k))
                except TypeError:
                    pass
        if hasattr(o, "symbolic_expressions"):
            out["symbolic_expressions"] = sorted(o.symbolic_expressions)
        if isinstance(o, gt.IR):
            out["cfg"] = len(o.cfg)
        if hasattr(o, "contents") and isinstance(o, gt.ByteInterval):
            out["contents"] = bytes(o.contents)
        return out

    sym = gt.Symbol("s")
    px = gt.ProxyBlock()

    def makers(shared):
        """(label, constructor, mutators) ; shared=None -> defaults."""
        return [
            ("Section.flags", lambda: gt.Section(name="s", **(
                {"flags": shared["set"]} if shared else {})),
             [lambda o: o.flags.add(F.Writable)]),
            ("Section.byte_intervals", lambda: gt.Section(name="s", **(
                {"byte_intervals": shared["list"]} if shared else {})),
             [lambda o: o.byte_intervals.add(gt.ByteInterval())]),
            ("Module.aux_data", lambda: gt.Module(name="m", **(
                {"aux_data": shared["dict"]} if shared else {})),
             [lambda o: o.aux_data.__setitem__("k", gt.AuxData(1, "uint8_t"))]),
            ("Module.sections", lambda: gt.Module(name="m", **(
                {"sections": shared["list"]} if shared else {})),
             [lambda o: o.sections.add(gt.Section(name="x"))]),
            ("Module.symbols", lambda: gt.Module(name="m", **(
                {"symbols": shared["list"]} if shared else {})),
             [lambda o: o.symbols.add(gt.Symbol("x"))]),
            ("Module.proxies", lambda: gt.Module(name="m", **(
                {"proxies": shared["list"]} if shared else {})),
             [lambda o: o.proxies.add(gt.ProxyBlock())]),
            ("IR.aux_data", lambda: gt.IR(**(
                {"aux_data": shared["dict"]} if shared else {})),
             [lambda o: o.aux_data.__setitem__("k", gt.AuxData(1, "uint8_t"))]),
            ("IR.modules", lambda: gt.IR(**(
                {"modules": shared["list"]} if shared else {})),
             [lambda o: o.modules.append(gt.Module(name="x"))]),
            ("IR.cfg", lambda: gt.IR(**(
                {"cfg": shared["set"]} if shared else {})),
             [lambda o: o.cfg.add(gt.Edge(px, px))]),
            ("ByteInterval.blocks", lambda: gt.ByteInterval(**(
                {"blocks": shared["list"]} if shared else {})),
             [lambda o: o.blocks.add(gt.DataBlock())]),
            ("ByteInterval.symbolic_expressions", lambda: gt.ByteInterval(**(
                {"symbolic_expressions": shared["dict"]} if shared else {})),
             [lambda o: o.symbolic_expressions.__setitem__(
                 3, gt.SymAddrConst(0, sym))]),
            ("ByteInterval.contents", lambda: gt.ByteInterval(
                size=8, **({"contents": shared["bytearray"]}
                           if shared else {"contents": b"ab"})),
             [lambda o: o.contents.__setitem__(0, 0x7A),
              lambda o: setattr(o, "initialized_size", 5)]),
            ("SymAddrConst.attributes", lambda: gt.SymAddrConst(0, sym, *(
                [shared["set"]] if shared else [])),
             [lambda o: o.attributes.add(A.GOT)]),
            ("SymAddrAddr.attributes", lambda: gt.SymAddrAddr(
                1, 0, sym, sym, *([shared["set"]] if shared else [])),
             [lambda o: o.attributes.add(A.PLT)]),
        ]

    for use_shared in (False, True):
        shared = {"set": set(), "list": [], "dict": {},
                  "bytearray": bytearray(b"ab")} if use_shared else None
        for label, mk, muts in makers(shared):
            a, b = mk(), mk()
            before_b = fp(b)
            before_args = repr(shared) if shared else None
            for mut in muts:
                mut(a)
            ctx.count("cases")
            ctx.count("isolation_probes")
            ctx.seen("nontrivial", ("iso", label, use_shared))
            if fp(b) != before_b:
                raise Discrepancy(
                    "C04", "shared-state:%s:%s" % (
                        label, "same-argument-object" if use_shared
                        else "default-arguments"),
                    "mutating %s of one node changed a separately "
                    "constructed node (%s)" % (
                        label, "both were given the same argument object"
                        if use_shared else "both built with defaults"), {})
            if shared and repr(shared) != before_args:
                raise Discrepancy(
                    "C04", "argument-object-mutated:%s" % label,
                    "mutating %s of a node changed the argument object its "
                    "constructor was given" % label, {})
            # a third node built afterwards must start clean
            c = mk()
            if shared is None and fp(c) != before_b:
                raise Discrepancy(
                    "C04", "shared-state:%s:default-arguments-later" % label,
                    "a node constructed with defaults after another one was "
                    "mutated does not start empty (%s)" % label, {})


def isolation_loaded(ctx, case, gt):
    """Nodes that come out of a file are separately constructed nodes too:
    equal values in the file (flag lists, contents, attribute sets, tables)
    must not become one shared object in the loaded IR, in a second load of
    the same bytes, or in a load made after the first one was edited."""
    from .. import irio
    rnd = case.rnd
    F = gt.Section.Flag
    A = gt.SymbolicExpression.Attribute
    ir = gt.IR()
    ir.aux_data["t"] = gt.AuxData([1, 2], "sequence<uint8_t>")
    ir.aux_data["u"] = gt.AuxData([1, 2], "sequence<uint8_t>")
    for mi in range(2):
        m = gt.Module(name="m", ir=ir)
        m.aux_data["t"] = gt.AuxData([1, 2], "sequence<uint8_t>")
        y = gt.Symbol("y", module=m)
        for si in range(2):
            s_ = gt.Section(name="s", flags={F.Readable, F.Loaded}, module=m)
            for ii in range(2):
                bi = gt.ByteInterval(size=8, contents=b"abcd", section=s_)
                bi.symbolic_expressions[2] = gt.SymAddrConst(0, y, {A.GOT})
                bi.symbolic_expressions[4] = gt.SymAddrAddr(1, 0, y, y,
                                                            {A.GOT})
    raw = irio.save(ir)

    def fps(l):
        out = {}
        for n in world.reachable(gt, l):
            d = {}
            if isinstance(n, gt.Section):
                d["flags"] = sorted(f.name for f in n.flags)
            if isinstance(n, gt.ByteInterval):
                d["contents"] = bytes(n.contents)
                for off, e in n.symbolic_expressions.items():
                    d["attrs@%d" % off] = sorted(a.name
                                                 for a in e.attributes)
            if hasattr(n, "aux_data"):
                for k, a in n.aux_data.items():
                    d["aux:" + k] = repr(a.data)
            out[n.uuid] = d
        return out

    L1, L2 = irio.load(gt, raw), irio.load(gt, raw)
    pristine = fps(L1)
    if fps(L2) != pristine:
        raise Discrepancy("C04", "loaded-twice-differs", "two loads of one "
                          "file differ", {})
    m1 = L1.modules[0]
    s1 = next(iter(m1.sections))
    b1 = next(iter(s1.byte_intervals))
    edits = [
        ("Section.flags", s1, "flags", lambda: s1.flags.add(F.Writable)),
        ("ByteInterval.contents", b1, "contents",
         lambda: b1.contents.__setitem__(0, 0x7A)),
        ("SymAddrConst.attributes", b1, "attrs@2",
         lambda: b1.symbolic_expressions[2].attributes.add(A.PLT)),
        ("SymAddrAddr.attributes", b1, "attrs@4",
         lambda: b1.symbolic_expressions[4].attributes.add(A.PLT)),
        ("Module.aux_data value", m1, "aux:t",
         lambda: m1.aux_data["t"].data.append(9)),
        ("IR.aux_data value", L1, "aux:t",
         lambda: L1.aux_data["t"].data.append(9)),
    ]
    rnd.shuffle(edits)
    expect1 = {u: dict(d) for u, d in pristine.items()}
    for label, node, key, do in edits:
        do()
        now1 = fps(L1)
        expect1[node.uuid][key] = now1[node.uuid][key]
        ctx.count("cases")
        ctx.count("isolation_probes_loaded")
        ctx.seen("nontrivial", ("iso-loaded", label))
        if now1[node.uuid][key] == pristine[node.uuid][key]:
            raise Discrepancy("C04", "edit-without-effect:" + label,
                              "in-place edit of %s of a loaded node did "
                              "not show" % label, {})
        if now1 != expect1:
            raise Discrepancy(
                "C04", "shared-state:%s:loaded-same-ir" % label,
                "editing %s of one loaded node in place changed another "
                "node of the same loaded IR" % label, {})
        if fps(L2) != pristine:
            raise Discrepancy(
                "C04", "shared-state:%s:loaded-other-ir" % label,
                "editing %s of a loaded node in place changed a node of "
                "another IR loaded from the same bytes" % label, {})
        if fps(irio.load(gt, raw)) != pristine:
            raise Discrepancy(
                "C04", "shared-state:%s:later-load" % label,
                "after %s of a loaded node was edited in place, a fresh "
                "load of the same bytes no longer matches the file"
                % label, {})


def run(ctx):
    import gtirb
    c03.run(ctx, "C04")
    for case in ctx.cases("iso_loaded", max(2, ctx.params.get("n_iso", 8) // 2)):
        ctx.run_case(case, lambda c: isolation_loaded(ctx, c, gtirb))
    for case in ctx.cases("iso", ctx.params.get("n_iso", 8)):
        ctx.run_case(case, lambda c: isolation(ctx, c, gtirb))
