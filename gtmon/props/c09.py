"""C09 - after load every reference is the attached object itself.

Positive monitor: in IRs loaded from generated files, every reference
(symbol referent, entry point, edge endpoint, expression symbol, AuxData
UUID/Offset entry) is compared by identity with the object found by *walking
the containment tree* (never by get_by_uuid).  Negative monitor: files with
exactly one dangling or ill-typed reference of each kind must raise
DeserializationError."""
import collections
import uuid as _uuid

from .. import auxgen, foreign, irbuild, irio, refcodec, spec as gspec
from .. import world
from ..ctx import Discrepancy

META = {
    "rule": "positive: C01 specs (profile 'refs' favours many references to "
            "few nodes) saved by the API or assembled as foreign messages, "
            "loaded, every reference identity-checked against a walk of the "
            "tree; negative: one reference of one kind (symbol referent, "
            "entry point, edge source/target, addr_const symbol, addr_addr "
            "symbol1/symbol2) replaced by a fresh UUID or by the UUID of a "
            "node of each wrong kind. Non-trivial = IR with >=1 reference "
            "checked / a negative case; distinct = hash of spec (+ fault).",
    "reach": {"identity:symbol_referent": 100, "identity:entry_point": 50,
              "identity:edge_endpoint": 100, "identity:expr_symbol": 100,
              "identity:aux_attached": 100, "identity:aux_plain_uuid": 50,
              "negative:rejected": 200, "#negative_shapes": 30},
    "assumptions": [
        "negatives use well-formed 16-byte UUIDs (a malformed UUID is C17)",
        "references stay inside their module, as C01 states",
    ],
}

REF_VALID = {
    "symbol.referent": ("code", "data", "proxy"),
    "module.entry_point": ("code",),
    "edge.source": ("code", "proxy"),
    "edge.target": ("code", "proxy"),
    "addr_const.symbol": ("symbol",),
    "addr_addr.symbol1": ("symbol",),
    "addr_addr.symbol2": ("symbol",),
}
ALL_KINDS = ("ir", "module", "section", "interval", "code", "data", "proxy",
             "symbol")


def tree_map(gt, ir):
    """uuid -> object by walking the containment tree; raises Discrepancy if
    two distinct objects share a UUID."""
    out = {}
    for n in world.reachable(gt, ir):
        if n.uuid in out and out[n.uuid] is not n:
            raise Discrepancy("C09", "two-objects-one-uuid",
                              "two distinct attached objects share a UUID",
                              {})
        out[n.uuid] = n
    return out


def positive(ctx, gt, ir, sp):
    tm = tree_map(gt, ir)

    def same(obj, what, key):
        ctx.count("identity:" + key)
        if tm.get(obj.uuid) is not obj:
            raise Discrepancy(
                "C09", "not-identical:" + key,
                "%s is an object that is not the one attached to the IR "
                "under that UUID (%s)" % (what, "a copy" if obj.uuid in tm
                                          else "not attached at all"), {})

    # every reference the file names must be there, as that very object
    # (a reference silently dropped is not "the object reachable ...")
    if sp is not None:
        U = lambda h: tm.get(_uuid.UUID(hex=h))

        def named(holder, attr, want_hex, key):
            ctx.count("named_reference:" + key)
            got = getattr(holder, attr) if holder is not None else None
            if got is None or got is not U(want_hex):
                raise Discrepancy(
                    "C09", "reference-lost-or-redirected:" + key,
                    "the file names %s as %s of %s, the loaded IR has %s"
                    % (want_hex, key, type(holder).__name__,
                       "nothing" if got is None else "another object"), {})
        for ms in sp["modules"]:
            if ms["entry_point"]:
                named(U(ms["uuid"]), "entry_point", ms["entry_point"],
                      "entry_point")
            for ys in ms["symbols"]:
                if ys["payload"] and "ref" in ys["payload"]:
                    named(U(ys["uuid"]), "referent", ys["payload"]["ref"],
                          "symbol_referent")
        want_edges = collections.Counter(
            (e["src"], e["tgt"]) for e in sp["edges"])
        got_edges = collections.Counter(
            (e.source.uuid.hex, e.target.uuid.hex) for e in ir.cfg)
        ctx.count("named_reference:edges")
        if set(want_edges) - set(got_edges):
            raise Discrepancy(
                "C09", "reference-lost-or-redirected:edge",
                "the file names CFG edges between %s that the loaded IR "
                "does not have" % (sorted(set(want_edges) -
                                          set(got_edges))[:3],), {})
    for m in ir.modules:
        if m.entry_point is not None:
            same(m.entry_point, "module.entry_point", "entry_point")
        for y in m.symbols:
            if y.referent is not None:
                same(y.referent, "symbol.referent", "symbol_referent")
        for bi in m.byte_intervals:
            for off, e in bi.symbolic_expressions.items():
                for y in e.symbols:
                    same(y, "expression symbol", "expr_symbol")
    for e in ir.cfg:
        same(e.source, "edge.source", "edge_endpoint")
        same(e.target, "edge.target", "edge_endpoint")
    for n in tm.values():
        if isinstance(n, gt.CfgNode):
            for e in list(n.outgoing_edges) + list(n.incoming_edges):
                same(e.source, "edge view source", "edge_endpoint")
                same(e.target, "edge view target", "edge_endpoint")
    # AuxData, read right after load, IR and module level
    for holder in [ir] + list(ir.modules):
        for k, a in holder.aux_data.items():
            t = refcodec.parse(a.type_name)
            if not refcodec.all_known(t):
                continue
            d = a.data

            def walk(v, t):
                name, kids = t
                if name == "UUID":
                    yield v
                elif name == "Offset":
                    yield v.element_id
                elif name in ("sequence", "set"):
                    for x in v:
                        yield from walk(x, kids[0])
                elif name == "mapping":
                    for kk, x in v.items():
                        yield from walk(kk, kids[0])
                        yield from walk(x, kids[1])
                elif name == "tuple":
                    for x, kt in zip(v, kids):
                        yield from walk(x, kt)
                elif name == "variant":
                    yield from walk(v.val, kids[v.index])
            for x in walk(d, t):
                if isinstance(x, gt.Node):
                    ctx.count("identity:aux_attached")
                    if tm.get(x.uuid) is not x:
                        raise Discrepancy(
                            "C09", "not-identical:aux",
                            "AuxData UUID/Offset entry decoded to a node "
                            "object that is not the attached one", {})
                elif isinstance(x, _uuid.UUID):
                    ctx.count("identity:aux_plain_uuid")
                    if x in tm:
                        raise Discrepancy(
                            "C09", "aux-plain-uuid-for-attached-node",
                            "AuxData entry names an attached node but "
                            "decoded to a plain UUID", {})
                else:
                    raise Discrepancy("C09", "aux-entry-type",
                                      "AuxData UUID entry decoded to %s"
                                      % type(x).__name__, {})


def late_reads(ctx, case, gt, prop="C09"):
    """Tables are decoded when first read: an entry is the node attached
    under that UUID *then*, or a plain UUID if there is none then - whatever
    other tables naming the same UUID were read before, and whatever the IR
    looked like at those times."""
    rnd = case.rnd
    ir = gt.IR()
    m = gt.Module(name="m", ir=ir)
    bi = gt.ByteInterval(size=16, section=gt.Section(name="s", module=m))
    live = [gt.CodeBlock(offset=i, size=1, byte_interval=bi)
            for i in range(3)] + [gt.ProxyBlock(module=m)]
    ghosts = [_uuid.UUID(int=rnd.getrandbits(128)) for _ in range(2)]
    pool = [n.uuid for n in live] + ghosts

    def table():
        us = rnd.sample(pool, rnd.randint(2, len(pool)))
        k = rnd.randrange(4)
        if k == 0:
            return list(us), "sequence<UUID>"
        if k == 1:
            return {u: i for i, u in enumerate(us)}, "mapping<UUID,uint64_t>"
        if k == 2:
            return {gt.Offset(u, i) for i, u in enumerate(us)}, "set<Offset>"
        return us[0], "UUID"
    for holder in (ir, m):
        for i in range(rnd.randint(2, 4)):
            v, t = table()
            holder.aux_data["t%d" % i] = gt.AuxData(v, t)
    ir2 = irio.load(gt, irio.save(ir))
    m2 = ir2.modules[0]
    bi2 = next(iter(m2.byte_intervals))
    attached = {n.uuid: n for n in world.reachable(gt, ir2)}
    detached = {}
    todo = [(h, k) for h in (ir2, m2) for k in sorted(h.aux_data)]
    rnd.shuffle(todo)
    log = []
    for h, k in todo:
        for _ in range(rnd.randint(0, 2)):
            e = rnd.randrange(3)
            cands = [u for u in pool if u in attached]
            if e == 0 and cands:
                u = rnd.choice(cands)
                n = attached.pop(u)
                if isinstance(n, gt.ProxyBlock):
                    n.module = None
                else:
                    n.byte_interval = None
                detached[u] = n
                log.append("detach %s" % type(n).__name__)
            elif e == 1 and detached:
                u = rnd.choice(sorted(detached))
                n = detached.pop(u)
                if isinstance(n, gt.ProxyBlock):
                    n.module = m2
                else:
                    n.byte_interval = bi2
                attached[u] = n
                log.append("re-attach %s" % type(n).__name__)
            elif e == 2:
                free = [g for g in ghosts if g not in attached
                        and g not in detached]
                if free:
                    n = gt.ProxyBlock(uuid=free[0], module=m2)
                    attached[free[0]] = n
                    log.append("attach a new node under a UUID that "
                               "named nothing when the file was loaded")
        d = h.aux_data[k].data
        log.append("first read of %s.%s" % (type(h).__name__, k))
        case.ops = [{"late_reads": list(log)}]
        items = d if isinstance(d, (list, set)) else (
            list(d) if isinstance(d, dict) else [d])
        for x in items:
            x = x.element_id if isinstance(x, gt.Offset) else x
            ctx.count("late_read:entries")
            if isinstance(x, gt.Node):
                if attached.get(x.uuid) is not x:
                    raise Discrepancy(
                        prop, "late-read:node-for-unattached-uuid",
                        "an entry read for the first time after edits is a "
                        "%s object that is not attached under that UUID now"
                        % type(x).__name__, {"history": log})
            elif x in attached:
                raise Discrepancy(
                    prop, "late-read:plain-uuid-for-attached-node",
                    "an entry read for the first time after edits is a "
                    "plain UUID although a node is attached under it now",
                    {"history": log})
    ctx.count("late_read:histories")


def reference_sites(data):
    """[(kind, container dict, key)] for every reference in message data."""
    out = []
    for m in data["modules"]:
        if m.get("entry_point"):
            out.append(("module.entry_point", m, "entry_point", m))
        for y in m["symbols"]:
            if "referent_uuid" in y:
                out.append(("symbol.referent", y, "referent_uuid", m))
        for s in m["sections"]:
            for bi in s["byte_intervals"]:
                for off, e in bi["symbolic_expressions"].items():
                    if "addr_const" in e:
                        out.append(("addr_const.symbol", e["addr_const"],
                                    "symbol_uuid", m))
                    else:
                        out.append(("addr_addr.symbol1", e["addr_addr"],
                                    "symbol1_uuid", m))
                        out.append(("addr_addr.symbol2", e["addr_addr"],
                                    "symbol2_uuid", m))
    for e in data["cfg"]["edges"]:
        out.append(("edge.source", e, "source_uuid", None))
        out.append(("edge.target", e, "target_uuid", None))
    return out


def negative(ctx, case, gt, sp):
    rnd = case.rnd
    def is_de(e):
        # by name through the MRO, so the check does not depend on where the
        # library defines the class
        return any(c.__name__ == "DeserializationError"
                   for c in type(e).__mro__)

    kinds = gspec.kinds(sp)
    by_kind = {}
    for u, k in kinds.items():
        by_kind.setdefault(k, []).append(u)
    data0 = foreign.message_data(gt, sp)
    sites = reference_sites(data0)
    if not sites:
        return 0
    done = 0
    for _ in range(min(6, len(sites) * 2)):
        idx = rnd.randrange(len(sites))
        refkind = sites[idx][0]
        wrong = [k for k in ALL_KINDS if k not in REF_VALID[refkind]
                 and by_kind.get(k)]
        choice = rnd.choice(["fresh"] + wrong + wrong)
        if choice == "fresh":
            new = "%032x" % rnd.getrandbits(128)
            while new in kinds:
                new = "%032x" % rnd.getrandbits(128)
        else:
            new = rnd.choice(by_kind[choice])
        shape = "%s->%s" % (refkind, choice)

        def edit(data, idx=idx, new=new):
            k, container, key, _m = reference_sites(data)[idx]
            container[key] = new
        raw = foreign.file_for(gt, sp, edit)
        ctx.count("cases")
        ctx.count("negative:cases")
        ctx.seen("negative_shapes", shape)
        ctx.seen("nontrivial", (shape, raw))
        case.ops = [{"spec": sp, "fault": shape, "site": idx, "new": new}]
        try:
            irio.load(gt, raw)
        except Exception as e:
            if type(e).__name__ == "OpTimeout":
                raise
            if is_de(e):
                ctx.count("negative:rejected")
                done += 1
                continue
            raise Discrepancy(
                "C09", "negative-wrong-exception:%s:%s" % (
                    shape, type(e).__name__),
                "a file whose %s names %s fails with %s instead of "
                "DeserializationError" % (
                    refkind, "a missing node" if choice == "fresh"
                    else "a " + choice, type(e).__name__),
                {"fault": shape})
        raise Discrepancy(
            "C09", "negative-accepted:%s" % shape,
            "a file whose %s names %s loads instead of being rejected" % (
                refkind, "a missing node" if choice == "fresh"
                else "a " + choice), {"fault": shape})
    return done


def dup_uuid_cases(ctx, case, gt, sp):
    """'Each UUID denotes one object': a file that reuses one UUID for two
    nodes is either rejected or loads to an IR in which no two attached
    objects share a UUID and all references are still identical."""
    from .c17 import structural_faults
    rnd = case.rnd
    faults = [(n, e) for n, e in structural_faults(rnd, gt, sp)
              if n.startswith("dup-uuid")]
    rnd.shuffle(faults)
    for name, edit in faults[:3]:
        raw = foreign.file_for(gt, sp, edit)
        ctx.count("cases")
        ctx.count("dup_uuid:cases")
        ctx.seen("negative_shapes", name)
        ctx.seen("nontrivial", (name, raw))
        case.ops = [{"spec": sp, "fault": name}]
        try:
            ir = irio.load(gt, raw)
        except Exception as e:
            if type(e).__name__ == "OpTimeout":
                raise
            ctx.count("dup_uuid:rejected")
            continue
        ctx.count("dup_uuid:accepted")
        try:
            # the spec no longer describes this file: identity only
            positive(ctx, gt, ir, None)
        except Discrepancy as d:
            raise Discrepancy(d.prop, d.mechanism + ":" + name,
                              "file with %s: %s" % (name, d.what), d.detail)


def run(ctx):
    import gtirb

    def one(case):
        rnd = case.rnd
        sp = gspec.gen_spec(rnd, gtirb, rnd.choice(
            ["refs", "refs", "mixed", "wide"]))
        case.ops = [{"spec": sp}]
        ctx.count("cases")
        if rnd.random() < 0.5:
            ir, _ = irbuild.build(sp, gtirb, rnd)
            raw = irio.save(ir)
            ctx.count("positive:written_by_api")
        else:
            raw = foreign.file_for(gtirb, sp)
            ctx.count("positive:foreign_message")
        ir2 = irio.load(gtirb, raw)
        before = sum(v for k, v in ctx.counters.items()
                     if k.startswith("identity:"))
        positive(ctx, gtirb, ir2, sp)
        after = sum(v for k, v in ctx.counters.items()
                    if k.startswith("identity:"))
        if after > before:
            ctx.seen("nontrivial", gspec.normalize(sp))
        negative(ctx, case, gtirb, sp)
        dup_uuid_cases(ctx, case, gtirb, sp)
        late_reads(ctx, case, gtirb)
        if case.index % 151 == 0:
            ctx.sample({"summary": gspec.summary(sp),
                        "references_checked": after - before})

    for case in ctx.cases("refs", int(ctx.params.get("n_refs", 400) * (0.15 if ctx.params.get("config") == "python" else 1))):
        ctx.run_case(case, one)
