"""C08 - AuxData bytes follow the shared wire format.

Oracle 1: gtmon/refcodec.py (independent encoder/decoder written from the
format comment), byte for byte, plus decoding of foreign bytes (other element
orders).  Oracle 2: the repository's own Java codecs, compiled unchanged and
driven by java/Xcheck.java from the parent (gtmon/javax.py); stage 2 decodes
the Java re-encodings with the real Python decoder."""
import json

from .. import auxgen, codecmon, refcodec, reftypes
from ..ctx import Discrepancy
from .c07 import note_coverage

META = {
    "rule": "the C07 generator; every (type, value) is encoded by the API "
            "and compared byte for byte with the reference encoder, decoded "
            "by the reference decoder, and re-presented as foreign bytes "
            "(shuffled set/map order); cases whose type the Java codecs "
            "support are also decoded and re-encoded by the Java codec. "
            "Non-trivial = type has a container or encoding > 1 byte; "
            "distinct = hash of (type name, bytes).",
    "reach": {"oracle_comparisons": 500, "foreign_bytes_decoded": 500,
              "strings:non_ascii": 50, "#type_names_used": 20, "failed_encodes": 100},
    "assumptions": [
        "gtmon/refcodec.py states the documented format correctly (written "
        "from include/gtirb/AuxData.hpp and AuxData.md, shares no code with "
        "gtirb.serialization)",
        "Java cross-check covers the Java-supported type subset only (no "
        "double, Addr, tuples > 5, variants other than 2/3); if javac is "
        "unusable it is skipped and reported, oracle 1 still decides",
    ],
}


def stage2(ctx, gtirb):
    """Decode the Java re-encodings with the real decoder."""
    codecmon.private_serialization(gtirb, ctx)
    mon = codecmon.CodecMonitor(ctx, gtirb)
    n = 0
    for i, line in enumerate(open(ctx.params["java_stage2_file"],
                                  encoding="utf-8")):
        if i % ctx.nworkers != ctx.worker:
            continue
        cid, tn, jhex, want_json = line.rstrip("\n").split("\t")
        t = refcodec.parse(tn)
        want = refcodec.norm(codecmon.from_json(json.loads(want_json)))
        try:
            d = mon.pydec(bytes.fromhex(jhex), tn)
            got = mon.decoded_norm(d, t)
        except Exception as e:
            got = "raised %s" % type(e).__name__
        ctx.count("java:stage2_decoded_by_python")
        n += 1
        if got != want:
            ctx.violation("C08", "python-decodes-java-bytes:%s" % t[0],
                          "bytes produced by the Java codec for a %s decode "
                          "to a different value in this API" % tn,
                          None, {"type": tn, "java_bytes": jhex[:600],
                                 "case": cid})
    ctx.count("cases", n)


def cxx_tables(ctx, mon, gtirb):
    """Bytes written by another GTIRB implementation: the AuxData tables of
    the repository's sample file python/tests/hello.gtirb (produced by the
    C++ tool chain).  The API must decode them to the value the reference
    decoder reads, and re-encode that value to bytes the reference decoder
    reads back to the same value."""
    import os
    from .. import build as gbuild, contract
    path = os.path.join(gbuild.repo_dir(), "python", "tests", "hello.gtirb")
    if not os.path.exists(path):
        ctx.note("python/tests/hello.gtirb not present: C++-written tables "
                 "not checked")
        return
    raw = open(path, "rb").read()
    msg = contract.pb(gtirb, "IR_pb2").IR()
    msg.ParseFromString(raw[8:])
    tabs = list(msg.aux_data.items())
    for m in msg.modules:
        tabs += list(m.aux_data.items())
    for key, a in tabs:
        t = refcodec.parse(a.type_name)
        if not refcodec.all_known(t):
            continue
        data = bytes(a.data)
        n, pos = refcodec.decode(data, t)
        want = refcodec.norm(n)
        ctx.count("cases")
        ctx.count("cxx_tables_checked")
        ctx.count("bytes_compared", len(data))
        ctx.seen("nontrivial", (a.type_name, data))
        d = mon.pydec(data, a.type_name)
        if pos != len(data) or mon.decoded_norm(d, t) != want:
            raise Discrepancy(
                "C08", "decode-c++-written-table:%s" % t[0],
                "AuxData table %r (%s) of hello.gtirb, written by the C++ "
                "implementation, decodes to a different value than the "
                "documented format gives" % (key, a.type_name), {})
        back = mon.pyenc(d, a.type_name)
        n2, pos2 = refcodec.decode(back, t)
        if pos2 != len(back) or refcodec.norm(n2) != want:
            raise Discrepancy(
                "C08", "reencode-c++-written-table:%s" % t[0],
                "re-encoding table %r (%s) of hello.gtirb does not follow "
                "the documented format" % (key, a.type_name), {})


def run(ctx):
    import gtirb
    if ctx.params.get("java_stage2_file"):
        return stage2(ctx, gtirb)
    codecmon.private_serialization(gtirb, ctx)
    mon = codecmon.CodecMonitor(ctx, gtirb)

    def one(case):
        rnd = case.rnd
        pool = auxgen.Pool(gtirb, rnd)
        for _ in range(20):
            t, v = codecmon.gen_case(
                rnd, pool, java_bias=0.4, big=ctx.tier == "thorough"
                and rnd.random() < 0.01)
            tn = reftypes.show(t)
            case.ops = [{"type": tn, "value": auxgen.describe(v, t)}]
            ctx.count("cases")
            if rnd.random() < 0.08:
                mon.failed_encode(case, t, v)
            raw = mon.check_format(case, t, v, pool)
            note_coverage(ctx, t, v, raw)
            if t[1] or len(raw) > 1:
                ctx.seen("nontrivial", (tn, raw))
        if case.index % 97 == 0:
            ctx.sample({"type": tn, "value": auxgen.describe(v, t),
                        "bytes": raw.hex()[:200]})

    for case in ctx.cases("fmt", ctx.params.get("n_fmt", 400)):
        ctx.run_case(case, one)
    # the bytes a *table* is written with (AuxData object -> save), across
    # several saves with in-place edits of the value through a reference
    # the caller kept: every save writes the encoding of the value as it is
    def table_path(case):
        from .. import irio
        rnd = case.rnd
        pool = auxgen.Pool(gtirb, rnd)
        for _ in range(40):
            t = auxgen.gen_type(rnd, rnd.choice([1, 2, 3]))
            if t[0] in ("sequence", "set", "mapping"):
                break
        else:
            return
        v = auxgen.gen_value(rnd, t, pool)
        ir = gtirb.IR()
        holder = ir if rnd.random() < 0.5 else gtirb.Module(name="m", ir=ir)
        holder.aux_data["t"] = gtirb.AuxData(v, reftypes.show(t))
        ctx.count("cases")
        case.ops = [{"type": reftypes.show(t)}]
        for rnd_no in range(rnd.randint(2, 4)):
            msg = irio.parse_ir_message(gtirb, irio.save(ir))
            h = msg if holder is ir else msg.modules[0]
            data = bytes(h.aux_data["t"].data)
            ctx.count("table_path:saves")
            try:
                n, pos = refcodec.decode(data, t)
                ok = pos == len(data) and refcodec.norm(n) == refcodec.norm(
                    refcodec.neutral(v, t))
            except refcodec.RefError:
                ok = False
            if not ok:
                raise Discrepancy(
                    "C08", "table-bytes-not-the-current-value",
                    "save number %d wrote a %s table whose bytes are not "
                    "the encoding of the value the table holds now: %s"
                    % (rnd_no + 1, reftypes.show(t), data.hex()[:80]), {})
            try:
                if t[0] == "sequence":
                    v.append(auxgen.gen_value(rnd, t[1][0], pool))
                elif t[0] == "set":
                    v.add(auxgen.gen_value(rnd, t[1][0], pool, True))
                else:
                    v[auxgen.gen_value(rnd, t[1][0], pool, True)] = \
                        auxgen.gen_value(rnd, t[1][1], pool)
            except TypeError:
                break
        ctx.seen("nontrivial", ("table", reftypes.show(t), case.index))
    for case in ctx.cases("table", max(40, ctx.params.get("n_fmt", 400) // 10)):
        ctx.run_case(case, table_path)
    for case in ctx.cases("cxx", 1):
        ctx.run_case(case, lambda c: cxx_tables(ctx, mon, gtirb))
    mon.close()
