"""C17 - the loader either rejects a file or returns a coherent IR.

Fault enumeration over valid seed files (generated specs saved by the API):
every truncation, every single-bit flip (complete for small files, sampled
above), random byte substitutions, all 256 values of each header byte, the
three header/version rules, and structural faults injected by editing the
message.  Oracle on a returned IR: world check (C03/C04 on the returned
object), typed references, stored bytes <= size, save succeeds and the saved
file loads again; header faults must raise ValueError; CPU-time bound per
load."""
import copy

from .. import foreign, irbuild, irio, spec as gspec, world
from ..ctx import Discrepancy, OpTimeout

META = {
    "rule": "seed files = C01 specs saved through the API (0.1-4 KiB); per "
            "seed file: all truncations, all 8*len single-bit flips when "
            "len <= bitflip_complete_max (else a sample), byte "
            "substitutions, multi-byte splices (insert/delete/duplicate/swap/"
            "zero a chunk), 8x256 header byte values, wrong magic / version "
            "byte / message version, and one structural fault per class "
            "(dangling or ill-typed reference, duplicated UUID within a "
            "kind / across kinds / across modules / with the IR's UUID, "
            "any two nodes sharing a UUID, one UUID used three times across "
            "two modules, two independent structural faults at once, "
            "unknown enum number per enum field, UUID length 0/15/17, empty "
            "one-of, contents longer than size). Non-trivial = the faulted "
            "file differs from the seed; distinct = hash of the file bytes.",
    "reach": {"fault:truncation": 2000, "fault:bitflip": 5000,
              "fault:substitution": 500, "fault:header_byte": 2000,
              "fault:structural": 150, "fault:splice": 500, "outcome:accepted_coherent": 500,
              "outcome:rejected": 5000, "#structural_classes": 20,
              "header_rule_checks": 2000},
    "assumptions": [
        "'never hangs' is decided as: load of a file <= 64 KiB returns or "
        "raises within 30 s of CPU time",
        "coherence = C03/C04 invariants on the returned IR, typed "
        "references, len(contents) <= size, save + reload succeed",
    ],
}

ENUM_FIELDS = ["isa", "file_format", "byte_order", "section_flags",
               "decode_mode", "edge_type", "attribute_flags_negative"]


def coherence(ctx, gt, ir, fault, raw):
    nodes = world.reachable(gt, ir)
    F = world.check(gt, [ir], nodes, want=("C03", "C04", "C10"),
                    rnd=None)
    if F:
        raise Discrepancy("C17", "incoherent:%s:%s" % (fault, F[0][1]),
                          "load returned an IR violating %s: %s"
                          % (F[0][0], F[0][2]),
                          {"findings": [list(f) for f in F[:6]],
                           "file_hex": raw.hex()})
    errs = world.typed_reference_errors(gt, ir)
    if errs:
        raise Discrepancy("C17", "ill-typed:%s" % fault,
                          "load returned an ill-typed IR: %s" % errs[0],
                          {"errors": errs[:6], "file_hex": raw.hex()})
    if not isinstance(ir, gt.IR):
        raise Discrepancy("C17", "not-an-ir:%s" % fault,
                          "load returned %s" % type(ir).__name__, {})
    try:
        again = irio.save(ir)
    except Exception as e:
        raise Discrepancy("C17", "cannot-save-again:%s:%s" % (
            fault, type(e).__name__),
            "an IR returned by load cannot be saved: %s: %s"
            % (type(e).__name__, str(e)[:150]), {"file_hex": raw.hex()})
    ctx.count("coherent_ir_resaved")
    return again


_GOOD = {}


def after_rejection(ctx, gt, fault):
    """A rejected file must leave nothing behind: an unrelated valid file
    (two modules, the first one's entry point in the second) loads right
    afterwards."""
    if "raw" not in _GOOD:
        ir = gt.IR()
        m0 = gt.Module(name="a", ir=ir)
        m1 = gt.Module(name="b", ir=ir)
        bi = gt.ByteInterval(size=4, contents=b"abcd", section=gt.Section(
            name="s", module=m1))
        cb = gt.CodeBlock(offset=0, size=2, byte_interval=bi)
        m0.entry_point = cb
        gt.Symbol("x", payload=cb, module=m1)
        ir.aux_data["t"] = gt.AuxData([cb.uuid], "sequence<UUID>")
        _GOOD["raw"] = irio.save(ir)
        _GOOD["entry"] = cb.uuid
    ctx.count("valid_file_loaded_after_a_rejection")
    try:
        ir2 = irio.load(gt, _GOOD["raw"])
        ok = ir2.modules[0].entry_point is not None and \
            ir2.modules[0].entry_point.uuid == _GOOD["entry"]
        why = "loaded without its entry point"
    except Exception as e:
        ok, why = False, "rejected with %s: %s" % (type(e).__name__,
                                                   str(e)[:100])
    if not ok:
        raise Discrepancy(
            "C17", "valid-file-after-rejected-file:%s" % fault.split(":")[0],
            "a valid file loaded right after a rejected one (%s) is %s"
            % (fault, why), {})


def try_load(ctx, gt, raw, fault, header_rule=None):
    """Returns outcome string; raises Discrepancy on a violation."""
    ctx.count("cases")
    ctx.count("fault:" + fault.split(":")[0])
    ctx.seen("nontrivial", raw)
    try:
        ir = irio.load(gt, raw, seconds=30.0)
    except OpTimeout:
        ctx.timeouts += 1
        raise Discrepancy("C17", "hang:%s" % fault,
                          "load did not finish within 30 s of CPU time",
                          {"file_hex": raw.hex()})
    except RecursionError:
        ctx.count("outcome:rejected")
        ctx.count("rejected_with:RecursionError")
        return "rejected"
    except Exception as e:
        ctx.count("outcome:rejected")
        ctx.count("rejected_with:" + type(e).__name__)
        _GOOD["n"] = _GOOD.get("n", 0) + 1
        if fault.startswith("structural") or _GOOD["n"] % 97 == 0:
            after_rejection(ctx, gt, fault)
        if header_rule is not None:
            ctx.count("header_rule_checks")
            if not isinstance(e, ValueError):
                raise Discrepancy(
                    "C17", "header-rule:%s:%s" % (header_rule,
                                                  type(e).__name__),
                    "a file with %s is rejected with %s, not ValueError"
                    % (header_rule, type(e).__name__),
                    {"file_hex": raw[:64].hex()})
        return "rejected"
    if header_rule is not None:
        ctx.count("header_rule_checks")
        raise Discrepancy("C17", "header-rule-accepted:%s" % header_rule,
                          "a file with %s is accepted" % header_rule,
                          {"file_hex": raw[:64].hex()})
    coherence(ctx, gt, ir, fault.split(":")[0], raw)
    ctx.count("outcome:accepted_coherent")
    return "accepted"


# ---- structural faults -------------------------------------------------
def structural_faults(rnd, gt, sp):
    """[(class name, edit function or None if not applicable)]."""
    kinds = gspec.kinds(sp)
    by = {}
    for u, k in kinds.items():
        by.setdefault(k, []).append(u)
    out = []

    def sections(d):
        return [s for m in d["modules"] for s in m["sections"]]

    def intervals(d):
        return [bi for s in sections(d) for bi in s["byte_intervals"]]

    def blocks(d):
        return [b for bi in intervals(d) for b in bi["blocks"]]

    def exprs(d):
        return [e for bi in intervals(d)
                for e in bi["symbolic_expressions"].values()]

    def inner(b):
        return b.get("code") or b.get("data")

    def add(name, applicable, fn):
        if applicable:
            out.append((name, fn))

    d0 = foreign.message_data(gt, sp)
    mods = d0["modules"]
    # duplicated UUIDs
    add("dup-uuid:section-section", len(sections(d0)) >= 2, lambda d: sections(
        d)[1].__setitem__("uuid", sections(d)[0]["uuid"]))
    add("dup-uuid:block-block-same-kind", len(blocks(d0)) >= 2, lambda d:
        inner(blocks(d)[1]).__setitem__("uuid", inner(blocks(d)[0])["uuid"]))
    add("dup-uuid:interval-interval", len(intervals(d0)) >= 2, lambda d:
        intervals(d)[1].__setitem__("uuid", intervals(d)[0]["uuid"]))
    add("dup-uuid:section-proxy", sections(d0) and any(
        m["proxies"] for m in mods), lambda d: [
        m["proxies"] for m in d["modules"] if m["proxies"]][0][0].__setitem__(
        "uuid", sections(d)[0]["uuid"]))
    add("dup-uuid:symbol-block", blocks(d0) and any(
        m["symbols"] for m in mods), lambda d: [
        m["symbols"] for m in d["modules"] if m["symbols"]][0][0].__setitem__(
        "uuid", inner(blocks(d)[0])["uuid"]))
    add("dup-uuid:module-module", len(mods) >= 2, lambda d:
        d["modules"][1].__setitem__("uuid", d["modules"][0]["uuid"]))
    add("dup-uuid:module-ir", len(mods) >= 1, lambda d:
        d["modules"][0].__setitem__("uuid", d["uuid"]))
    add("dup-uuid:section-ir", sections(d0), lambda d:
        sections(d)[0].__setitem__("uuid", d["uuid"]))
    add("dup-uuid:interval-module", intervals(d0), lambda d:
        intervals(d)[0].__setitem__("uuid", d["modules"][0]["uuid"]))
    add("dup-uuid:symbol-symbol", any(len(m["symbols"]) >= 2 for m in mods),
        lambda d: [m["symbols"] for m in d["modules"]
                   if len(m["symbols"]) >= 2][0][1].__setitem__(
            "uuid", [m["symbols"] for m in d["modules"]
                     if len(m["symbols"]) >= 2][0][0]["uuid"]))
    add("dup-uuid:across-modules-section", len(mods) >= 2 and mods[0][
        "sections"] and mods[1]["sections"], lambda d:
        d["modules"][1]["sections"][0].__setitem__(
            "uuid", d["modules"][0]["sections"][0]["uuid"]))
    add("dup-uuid:across-modules-block-code-data", len(mods) >= 2 and any(
        "code" in b for b in blocks({"modules": mods[:1]})) and any(
        "data" in b for b in blocks({"modules": mods[1:]})), lambda d: [
        b for b in blocks({"modules": d["modules"][1:]}) if "data" in b][0][
        "data"].__setitem__("uuid", [
            b for b in blocks({"modules": d["modules"][:1]})
            if "code" in b][0]["code"]["uuid"]))
    # any two nodes of the file sharing one UUID (all kinds, incl. a node
    # and its own parent / child), sampled
    def all_nodes(d):
        out = [("ir", d)]
        for m in d["modules"]:
            out.append(("module", m))
            out += [("proxy", p) for p in m["proxies"]]
            out += [("symbol", y) for y in m["symbols"]]
            for s_ in m["sections"]:
                out.append(("section", s_))
                for bi in s_["byte_intervals"]:
                    out.append(("interval", bi))
                    for b in bi["blocks"]:
                        out.append(("code" if "code" in b else "data",
                                    inner(b)))
        return out
    n0 = all_nodes(d0)
    if len(n0) >= 2:
        for _ in range(8):
            i, j = rnd.sample(range(len(n0)), 2)

            def ed(d, i=i, j=j):
                ns = all_nodes(d)
                ns[j][1]["uuid"] = ns[i][1]["uuid"]
            out.append(("dup-uuid:pair:%s=%s%s" % (
                n0[j][0], n0[i][0], ":later" if j > i else ":earlier"), ed))
    # one UUID used three times: a same-kind duplicate in another module
    # (accepted: the node is reused and moved) combined with a different
    # kind in that module - two faults whose handling interacts
    if len(n0) >= 3 and len(d0["modules"]) >= 2:
        def module_of(idx, d=d0):
            mi = -1
            for q, (k, n) in enumerate(n0[:idx + 1]):
                if k == "module":
                    mi += 1
            return mi
        for _ in range(6):
            i = rnd.randrange(1, len(n0))
            same = [j for j in range(len(n0)) if j != i and
                    n0[j][0] == n0[i][0] and n0[i][0] not in ("ir", "module")
                    and module_of(j) != module_of(i)]
            if not same:
                continue
            j = rnd.choice(same)
            later = max(i, j)
            inmod = [k for k in range(len(n0)) if k not in (i, j) and
                     module_of(k) == module_of(later) and
                     n0[k][0] not in ("ir", "module")]
            if not inmod:
                continue
            k = rnd.choice(inmod)

            def ed3(d, i=i, j=j, k=k):
                ns = all_nodes(d)
                ns[j][1]["uuid"] = ns[i][1]["uuid"]
                ns[k][1]["uuid"] = ns[i][1]["uuid"]
            out.append(("dup-uuid:triple:%s,%s,%s" % (
                n0[i][0], n0[j][0], n0[k][0]), ed3))
    # unknown enum numbers
    add("enum:isa", mods, lambda d: d["modules"][0].__setitem__("isa", 77))
    add("enum:file_format", mods, lambda d: d["modules"][0].__setitem__(
        "file_format", 99))
    add("enum:byte_order", mods, lambda d: d["modules"][0].__setitem__(
        "byte_order", 3))
    add("enum:section_flag", sections(d0), lambda d: sections(d)[0][
        "section_flags"].append(42))
    add("enum:decode_mode", any("code" in b for b in blocks(d0)), lambda d: [
        b for b in blocks(d) if "code" in b][0]["code"].__setitem__(
        "decode_mode", 9))
    add("enum:edge_type", any("label" in e for e in d0["cfg"]["edges"]),
        lambda d: [e for e in d["cfg"]["edges"] if "label" in e][0][
            "label"].__setitem__("type", 17))
    # wrong-length UUIDs
    for ln, hexs in ((0, ""), (15, "ab" * 15), (17, "cd" * 17)):
        add("uuid-len-%d:ir" % ln, True, lambda d, h=hexs: d.__setitem__(
            "uuid", h))
        add("uuid-len-%d:module" % ln, mods, lambda d, h=hexs:
            d["modules"][0].__setitem__("uuid", h))
        add("uuid-len-%d:block" % ln, blocks(d0), lambda d, h=hexs:
            inner(blocks(d)[0]).__setitem__("uuid", h))
        add("uuid-len-%d:symbol-referent" % ln, any(
            "referent_uuid" in y for m in mods for y in m["symbols"]),
            lambda d, h=hexs: [y for m in d["modules"] for y in m["symbols"]
                               if "referent_uuid" in y][0].__setitem__(
                "referent_uuid", h))
        if ln:
            add("uuid-len-%d:entry-point" % ln, mods, lambda d, h=hexs:
                d["modules"][0].__setitem__("entry_point", h))
            add("uuid-len-%d:edge" % ln, d0["cfg"]["edges"], lambda d, h=hexs:
                d["cfg"]["edges"][0].__setitem__("source_uuid", h))
            add("uuid-len-%d:expr-symbol" % ln, any(
                "addr_const" in e for e in exprs(d0)), lambda d, h=hexs: [
                e for e in exprs(d) if "addr_const" in e][0][
                "addr_const"].__setitem__("symbol_uuid", h))
    # AuxData tables whose type names other producers might write: blanks
    # after commas, names without a codec here, names outside the grammar.
    # Tables are opaque to load; the IR it returns must still be savable.
    for i, (tn, data) in enumerate([
            ("mapping<UUID, uint64_t>", "00" * 8),
            ("mapping<UUID, uint64_t>",
             "01" + "00" * 7 + "22" * 16 + "05" + "00" * 7),
            ("variant<set<string>, foo>", "00" * 8 + "02" + "00" * 7 +
             "01" + "00" * 7 + "7a" + "01" + "00" * 7 + "61"),
            ("sequence<string >", "01" + "00" * 7 + "01" + "00" * 7 + "61"),
            ("tuple<string,  Offset>", "00" * 8 + "11" * 16 + "00" * 8),
            ("foo", "6a756e6b"), ("", ""), ("<", ""), ("sequence<>", ""),
            ("mapping<string>", "00" * 8), ("a,b", "78"),
            ("sequence<" * 40 + "int8_t" + ">" * 40, "00" * 8),
            ("string", "02" + "00" * 7 + "ff fe".replace(" ", "")),
            ("sequence<uint8_t>", "ff" * 8)]):
        def aux_edit(d, tn=tn, data=data, i=i):
            holder = d if (i % 2 == 0 or not d["modules"]) \
                else d["modules"][-1]
            holder.setdefault("aux_data", {})["odd%d" % i] = {
                "type_name": tn, "data": data}
        add("aux-type-name:%d" % i, True, aux_edit)
    # empty one-ofs
    def empty_block(d):
        b = blocks(d)[0]
        b.pop("code", None)
        b.pop("data", None)
    add("empty-oneof:block", blocks(d0), empty_block)

    def empty_expr(d):
        e = exprs(d)[0]
        e.pop("addr_const", None)
        e.pop("addr_addr", None)
    add("empty-oneof:expression", exprs(d0), empty_expr)
    # contents longer than size
    def long_contents(d):
        bi = intervals(d)[0]
        bi["size"] = 2
        bi["contents"] = "00" * 5
    add("contents-longer-than-size", intervals(d0), long_contents)
    # message version
    add("message-version", True, lambda d: d.__setitem__(
        "version", rnd.choice([0, 1, 3, 5, 255, 1 << 31])))
    # dangling / ill-typed references (one per kind, C09 does the matrix)
    from .c09 import reference_sites, REF_VALID, ALL_KINDS
    sites = reference_sites(d0)
    for idx, (refkind, _c, _k, _m) in enumerate(sites[:40]):
        wrong = [k for k in ALL_KINDS if k not in REF_VALID[refkind]
                 and by.get(k)]
        # the ill-typed target is the first or the last node of its kind in
        # file order (the last one is usually decoded *after* the site that
        # names it, the first one before)
        for choice, pos in [("fresh", 0)] + [
                (k, pos) for k in rnd.sample(wrong, min(3, len(wrong)))
                for pos in (0, -1)]:
            new = "%032x" % rnd.getrandbits(128) if choice == "fresh" \
                else by[choice][pos]
            name = "reference:%s->%s%s" % (refkind, choice,
                                           ":last" if pos else "")
            if any(n == name for n, _ in out):
                continue

            def ed(d, idx=idx, new=new):
                k, container, key, _m = reference_sites(d)[idx]
                container[key] = new
            out.append((name, ed))
    # two independent structural faults in one file
    singles = [(n, e) for n, e in out if not n.startswith("message-version")]
    for _ in range(4):
        if len(singles) < 2:
            break
        (na, ea), (nb, eb) = rnd.sample(singles, 2)

        def both(d, ea=ea, eb=eb):
            ea(d)
            try:
                eb(d)
            except (IndexError, KeyError, TypeError, AttributeError):
                pass  # the first fault removed what the second would edit
        out.append(("double:%s+%s" % (na.split(":")[0], nb.split(":")[0]),
                    both))
    return out


def run(ctx):
    import gtirb
    complete_max = ctx.params.get("bitflip_complete_max", 600)
    flip_sample = ctx.params.get("bitflip_sample", 1200)
    subs = ctx.params.get("substitutions", 250)

    def one(case):
        rnd = case.rnd
        sp = gspec.gen_spec(rnd, gtirb, rnd.choice(
            ["tiny", "mixed", "mixed", "refs"]))
        ir, _ = irbuild.build(sp, gtirb, rnd)
        raw = irio.save(ir)
        if len(raw) > 65536:
            return
        case.ops = [{"seed_file_hex": raw.hex() if len(raw) < 3000 else
                     "<%d bytes>" % len(raw)}]
        ctx.count("seed_files")
        ctx.count("seed_file_bytes", len(raw))
        # the seed itself must load (C01 checks content)
        if try_load(ctx, gtirb, raw, "seed") != "accepted":
            raise Discrepancy("C17", "seed-rejected",
                              "a file produced by save is rejected", {})
        # every truncation
        for k in range(len(raw)):
            rule = "magic-truncated" if k < 5 else (
                "version-byte-missing" if k < 8 else None)
            try_load(ctx, gtirb, raw[:k], "truncation", rule)
        ctx.count("truncation:files_completely_enumerated")
        # single-bit flips
        nbits = len(raw) * 8
        if len(raw) <= complete_max:
            bits = range(nbits)
            ctx.count("bitflip:files_completely_enumerated")
        else:
            bits = sorted(rnd.sample(range(nbits), min(flip_sample, nbits)))
        for b in bits:
            x = bytearray(raw)
            x[b // 8] ^= 1 << (b % 8)
            pos = b // 8
            rule = "bad-magic" if pos < 5 else (
                "wrong-version-byte" if pos == 7 else None)
            try_load(ctx, gtirb, bytes(x), "bitflip", rule)
        # byte substitutions in the body
        for _ in range(subs):
            pos = rnd.randrange(8, len(raw)) if len(raw) > 8 else 0
            x = bytearray(raw)
            v = rnd.randrange(256)
            if v == x[pos]:
                continue
            x[pos] = v
            try_load(ctx, gtirb, bytes(x), "substitution")
        # multi-byte damage: insertions, deletions, duplicated and swapped
        # chunks (sampled)
        for _ in range(ctx.params.get("splices", 60)):
            x = bytearray(raw)
            k = rnd.randrange(5)
            a = rnd.randrange(8, max(9, len(x)))
            n = rnd.randint(1, 12)
            if k == 0:
                x[a:a] = bytes(rnd.randrange(256) for _ in range(n))
            elif k == 1:
                del x[a:a + n]
            elif k == 2:
                x[a:a] = x[a:a + n]
            elif k == 3:
                b = rnd.randrange(8, max(9, len(x)))
                x[a:a + n], x[b:b + n] = x[b:b + n], x[a:a + n]
            else:
                x[a:a + n] = bytes(n)
            if bytes(x) != raw:
                try_load(ctx, gtirb, bytes(x), "splice")
        # all 256 values of every header byte (every 4th seed file)
        if case.index % 4 == 0:
            for pos in range(8):
                for v in range(256):
                    if v == raw[pos]:
                        continue
                    x = bytearray(raw)
                    x[pos] = v
                    rule = "bad-magic" if pos < 5 else (
                        "wrong-version-byte" if pos == 7 else None)
                    try_load(ctx, gtirb, bytes(x), "header_byte", rule)
            ctx.count("header:files_completely_enumerated")
        # wrong magic with a valid body; junk after a good header
        try_load(ctx, gtirb, b"GTIRC" + raw[5:], "header_byte", "bad-magic")
        try_load(ctx, gtirb, b"gtirb" + raw[5:], "header_byte", "bad-magic")
        try_load(ctx, gtirb, raw[:8] + bytes(
            rnd.randrange(256) for _ in range(40)), "substitution")
        # structural faults
        for name, edit in structural_faults(rnd, gtirb, sp):
            ctx.seen("structural_classes", name.split("->")[0]
                     if name.startswith("reference") else name)
            rawf = foreign.file_for(gtirb, sp, edit)
            rule = "message-version-field" if name == "message-version" \
                else None
            out = try_load(ctx, gtirb, rawf, "structural:" + name, rule)
            ctx.count("structural:%s:%s" % (name.split(":")[0], out))
        if case.index % 23 == 0:
            ctx.sample({"seed_file_bytes": len(raw),
                        "summary": gspec.summary(sp),
                        "bitflips": "complete" if len(raw) <= complete_max
                        else "sampled %d" % flip_sample})

    for case in ctx.cases("seed", int(ctx.params.get("n_seed", 64) * (0.15 if ctx.params.get("config") == "python" else 1))):
        ctx.run_case(case, one)


def replay(ctx, rec):
    import gtirb
    hx = rec.get("detail", {}).get("file_hex")
    if not hx:
        c = rec.get("case") or {}
        ctx.seed, ctx.tier = c.get("seed", ctx.seed), c.get("tier", ctx.tier)
        ctx.only_case = (c.get("stream"), c.get("index"))
        return run(ctx)
    raw = bytes.fromhex(hx)
    try:
        print("outcome:", try_load(ctx, gtirb, raw, "replay"))
    except Discrepancy as d:
        ctx.violation(d.prop, d.mechanism, d.what, None, d.detail)
