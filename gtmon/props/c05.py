"""C05 - block lookups by address or offset equal a fresh scan at every
scope.  Layout engine: edit histories with probes of all 18 interval-scope
and 18 section/module/IR-scope methods against the scan oracle."""
from .. import layout

META = {
    "rule": "layout histories of 10-80 edits (block offset/size, interval "
            "address to/from None and size, block/interval/section/module "
            "moves from either end, remove, re-add, update with several "
            "blocks, save->load->continue) over <=8 intervals and <=16 "
            "blocks in a tiny coordinate space (addresses 0-30, offsets "
            "0-14, sizes 0-6; every 4th history in a 'far' regime around "
            "2^63 and 2^64-1); check points with queries built from all "
            "critical coordinates +-1 (points, ranges with steps 1,2,3,7, "
            "empty and reversed ranges) and a complete point sweep at the "
            "end; per-history lookup schedule dense/sparse/rare/end-only; "
            "12% of steps are bursts aimed at one container (several "
            "index-affecting edits, then members added) or toggles (the "
            "same edit repeated, remove/re-add/remove); new members copy a "
            "sibling's coordinates 30% of the time; 8% of histories use a "
            "'medium' regime (26-60 intervals in one section, 34-90 blocks "
            "in one interval), thorough adds a 'large' one (100-900 blocks). "
            "Non-trivial = every history; distinct = hash of the "
            "operation list.",
    "reach": {"oracle_comparisons": 200000, "nonempty_expectations": 20000,
              "check_points": 600, "edit_then_lookup:blk_off": 200,
              "edit_then_lookup:blk_size": 200,
              "edit_then_lookup:iv_addr": 200, "edit_then_lookup:mv_blk": 200,
              "regime:far": 15, "save_load_continue": 3},
    "assumptions": [
        "queries are ints or ranges with step >= 1; node coordinates >= 0",
        "'on' with step > 1 and anything outside an interval's declared "
        "extent are judged by the must <= got <= may sandwich",
    ],
}
PROP = "C05"


def run(ctx, prop=None, focus=None):
    import gtirb
    prop = prop or PROP
    layout.install_lazy_hook(gtirb, ctx)

    def one(case):
        ctx.count("cases")
        layout.run_history(ctx, case, gtirb, prop,
                           case.rnd.choice([10, 25, 40, 80]), focus=focus)
        if case.index % 97 == 0:
            ctx.sample({"ops": case.ops[:30], "total_ops": len(case.ops)})

    for case in ctx.cases("layout", ctx.params.get("n_hist", 300)):
        before = set(ctx.violations)
        ok = ctx.run_case(case, one)
        if not ok:
            # minimise the witness of a new mechanism (bounded CPU time)
            for key in set(ctx.violations) - before:
                rec = ctx.violations[key]
                if rec["property"] != prop or "history" not in rec:
                    continue
                small = layout.shrink(ctx, gtirb, rec["history"], prop,
                                      rec["mechanism"])
                if small is not None:
                    rec["history_full_length"] = len(rec["history"])
                    rec["history"] = small
                    rec["history_minimised"] = True
                    try:
                        layout.replay_ops(ctx, gtirb, small, prop)
                    except Exception as d:
                        rec["what_on_minimised_history"] = str(d)[:600]


def replay(ctx, rec):
    import gtirb
    from ..ctx import Discrepancy
    prop = rec.get("property", ctx.prop)
    if rec.get("history_minimised"):
        for op in rec["history"]:
            print("  ", op)
        try:
            layout.replay_ops(ctx, gtirb, rec["history"], prop)
        except Discrepancy as d:
            ctx.violation(d.prop, d.mechanism, d.what, None, d.detail)
        return
    c = rec.get("case") or {}
    ctx.seed, ctx.tier = c.get("seed", ctx.seed), c.get("tier", ctx.tier)
    ctx.only_case = (c.get("stream"), c.get("index"))
    run(ctx, prop, {"C06": "C06", "C13": "C13"}.get(prop))
