"""C03 - UUID lookup finds exactly the nodes currently attached to that IR.

Ownership engine (gtmon/ownership.py): after every operation of long random
histories over 2-5 IRs, get_by_uuid is compared with a reachability scan of
every IR for every node of the universe (attached, detached, moved away,
twins from two loads of one file) and for fresh UUIDs."""
from .. import ownership

META = {
    "rule": "histories of 25-120 public operations (parent-attribute "
            "assignment, set add/discard/remove/pop/clear/update/|=/-=/^=/&=,"
            " module-list append/insert/extend/+=/del/slice assignment/pop/"
            "remove/clear/reverse, constructors with parent or stolen "
            "children (also another parent's live collection), batch "
            "operations whose argument is a plain container, another owning "
            "collection or the collection itself, ping-pong moves (away and "
            "back through random routes), one bulk call with 5-66 nodes, "
            "symbol edits, save->load joining the world) over 2-5 IRs and "
            "~20-120 nodes; world check after every operation. "
            "Non-trivial = every history (>=25 operations); distinct = hash "
            "of the operation list.",
    "reach": {"world_checks": 5000, "c03:attached_lookups": 50000,
              "c03:detached_lookups": 20000, "moves": 2000, "loads": 20,
              "#op_kinds": 60},
    "assumptions": [
        "UUIDs never change and are pairwise distinct among nodes attached "
        "to one IR at a time: operations that would break this "
        "precondition are skipped by the model (counted in evidence)",
    ],
}
PROP = "C03"


def run(ctx, prop=None):
    import gtirb
    prop = prop or PROP

    def one(case):
        ctx.count("cases")
        nops = case.rnd.choice([25, 40, 60, 120])
        ownership.run_history(ctx, case, gtirb, prop, nops)
        if case.index % 97 == 0:
            ctx.sample({"ops": case.ops[:25], "total_ops": len(case.ops)})

    for case in ctx.cases("hist", ctx.params.get("n_hist", 300)):
        ctx.run_case(case, one)
