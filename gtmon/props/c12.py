"""C12 - deferred index maintenance is unobservable.

Replica comparison: one edit history (generated from the pure-data layout
model) is executed on K freshly built replicas that differ only in *when*
lookups are issued: none until the end; after every step; random bursts;
threshold-targeted (lookups placed when the number of index-affecting edits
pending on a container is size-1, size, size+1 of that container);
lookup-then-immediately-again.  At one to several *sync points* inside the
history the four replicas that may look answer one common small probe and
must agree with the one that looked after every step (a divergence that a
later rebuild heals is still observable there).  At the end every replica answers the
identical complete probe set (all C05/C06/C13 lookups + Section.address/
size); all answer vectors must be equal.  A diagnostic hook on the lazy
index classifies the maintenance path actually taken (evidence only)."""
import collections
import random

from .. import layout
from ..ctx import Discrepancy

META = {
    "rule": "layout histories (10-60 edits, no implementation-chosen "
            "results) x 5 lookup schedules per history; final probe = "
            "complete point sweep + 20 critical-coordinate ranges through "
            "every lookup at every scope; >= 1 sync point per history (3 "
            "queries + all extents on the 4 looking replicas); stream 'scale': one container "
            "with 40/300/1100/2100 members (thorough up to 4200), edits = "
            "0.3-1.1 x members, three lookup schedules. Non-trivial = every "
            "history; "
            "distinct = hash of the operation list.",
    "reach": {"replicas_compared": 200, "final_answers_compared": 500000,
              "sync_points": 300, "sync_answers_compared": 200000,
              # harness-side count of index-affecting edits pending on a
              # container when a targeted lookup is placed (independent of
              # private names; the lazy:* counters from the diagnostic hook
              # are evidence only)
              "harness:pending<size": 500, "harness:pending=size": 100,
              "harness:pending>size": 40},
    "assumptions": [
        "the lazy:* path counts in evidence come from a diagnostic wrapper "
        "around the private LazyIntervalTree.get (non-empty collections "
        "only); if the private names move the hook is skipped (noted in "
        "evidence) and the verdict still rests on the replica comparison and "
        "the harness-side pending/size relations",
    ],
}
SCHEDULES = ["none", "every", "bursts", "threshold", "twice"]


def targeted(ctx, rep, model, rnd, container):
    """One cheap lookup on one container (resets its pending count)."""
    q = rnd.choice(model.critical() or [0])
    if layout.kd(container) == "I":
        o = rep.obj[container]
        n = len(model.blks_of_iv(container))
        p = rep.pending_blk[container]
        list(o.byte_blocks_at_offset(q))
        rep.pending_blk[container] = 0
    else:
        o = rep.obj[container]
        n = len(model.ivs_of_sec(container))
        p = rep.pending_iv[container]
        if rnd.random() < 0.5:
            list(o.byte_intervals_at(q))
        else:
            o.address
        rep.pending_iv[container] = 0
    rel = "<" if p < n else ("=" if p == n else ">")
    ctx.count("harness:pending%ssize" % rel)


def run(ctx):
    import gtirb
    hooked = layout.install_lazy_hook(gtirb, ctx)
    if not hooked:
        ctx.count("lazy_hook_missing")

    def one(case):
        rnd = case.rnd
        ctx.count("cases")
        regime = rnd.choice(["small", "small", "small", "far"])
        large = ctx.tier == "thorough" and rnd.random() < 0.005
        if large:
            regime = "large"
        elif rnd.random() < 0.1:
            regime = "medium"
        ctx.count("regime:" + regime)
        model = layout.Model(rnd, regime)
        reps = [layout.Real(gtirb, ctx,
                            random.Random(case.seed_str + ":uuid"))
                for _ in SCHEDULES]
        srnd = [random.Random("%s:sched:%d" % (case.seed_str, k))
                for k in range(len(SCHEDULES))]

        def do(op):
            case.ops.append(op)
            outs = []
            for rep in reps:
                outs.append(rep.apply(op, model))
            if len(set(map(repr, outs))) != 1:
                raise Discrepancy("C12", "replica-op-result-differs",
                                  "operation %r had different results on "
                                  "differently scheduled replicas: %r"
                                  % (op, outs), {})
            if outs[0] == "skipped":
                return
            model.apply(op, outs[0])

        for op in model.initial():
            do(op)
        nops = rnd.choice([10, 20, 40, 60])
        rnd_sync = random.Random(case.seed_str + ":sync")
        sync_at = rnd_sync.randrange(nops)
        for step in range(nops + 1):
            if step == nops:
                # the history ends with a burst now and then, so that what
                # the last unobserved run of edits did to an index is what
                # the final answers are computed from
                if rnd.random() >= 0.4:
                    break
                batch = model.gen_burst()
                ctx.count("histories_ending_with_a_burst")
            elif rnd.random() < 0.12:
                batch = model.gen_burst()
            else:
                batch = [model.gen_edit(allow_pop=False)]
            for op in batch:
                if op["op"] == "rm_iv" and not model.ivs[op["id"]]["sec"]:
                    continue
                if op["op"] == "rm_blk" and not model.blks[op["id"]]["iv"]:
                    continue
                do(op)
            for k, (name, rep) in enumerate(zip(SCHEDULES, reps)):
                r = srnd[k]
                if name == "none":
                    continue
                if name == "every":
                    layout.probe(ctx, rep, model,
                                 model.gen_queries(r, 2), judge=False)
                elif name == "bursts":
                    if r.random() < 0.15:
                        for _ in range(r.randint(1, 3)):
                            layout.probe(ctx, rep, model,
                                         model.gen_queries(r, 2),
                                         judge=False)
                elif name == "twice":
                    if r.random() < 0.3:
                        qs = model.gen_queries(r, 2)
                        layout.probe(ctx, rep, model, qs, judge=False)
                        layout.probe(ctx, rep, model, qs, judge=False)
                elif name == "threshold":
                    for i in model.ivs:
                        n = len(model.blks_of_iv(i))
                        if n and abs(rep.pending_blk[i] - n) <= 1 and \
                                r.random() < 0.8:
                            targeted(ctx, rep, model, r, i)
                    for s in model.secs:
                        n = len(model.ivs_of_sec(s))
                        if n and abs(rep.pending_iv[s] - n) <= 1 and \
                                r.random() < 0.8:
                            targeted(ctx, rep, model, r, s)
            # sync point: every replica that is allowed to look answers one
            # common small probe *now*; a divergence here is observable even
            # when a later rebuild heals the index before the final probe.
            # ('none' stays lookup-free until the end.)
            if step < nops and (step == sync_at or rnd_sync.random() < 0.06):
                sq = model.gen_queries(rnd_sync, 3)
                svec = []
                for rep in reps[1:]:
                    ans = []
                    layout.probe(ctx, rep, model, sq, answers=ans,
                                 judge=False)
                    layout.check_extents(ctx, rep, model, answers=ans,
                                         judge=False)
                    svec.append(ans)
                ctx.count("sync_points")
                for name, v in zip(SCHEDULES[2:], svec[1:]):
                    ctx.count("sync_answers_compared", len(v))
                    if v != svec[0]:
                        k = next(i for i, (a, b) in
                                 enumerate(zip(svec[0], v)) if a != b) \
                            if len(v) == len(svec[0]) else -1
                        a, b = (svec[0][k], v[k]) if k >= 0 else ("?", "?")
                        raise Discrepancy(
                            "C12", "schedule-dependent-answer:sync:%s:%s" % (
                                name, a[0] if k >= 0 else "length"),
                            "after %d steps of the same edit history, "
                            "%s(%s) on %s answers %s on the replica that "
                            "looked after every step and %s under the '%s' "
                            "lookup schedule" % (
                                step + 1, a[0], a[1], a[2], a[3], b[3], name)
                            if k >= 0 else
                            "answer vectors differ in length",
                            {"schedule": name, "step": step})
        # identical complete final probe on every replica
        qrnd = random.Random(case.seed_str + ":final")
        qs = model.gen_queries(qrnd, 6 if large or regime == "medium"
                               else 20, complete_points=not large and
                               regime != "medium")
        vectors = []
        for rep in reps:
            ans = []
            layout.probe(ctx, rep, model, qs, answers=ans, judge=False)
            layout.check_extents(ctx, rep, model, answers=ans, judge=False)
            vectors.append(ans)
        ref = vectors[0]
        for name, v in zip(SCHEDULES[1:], vectors[1:]):
            ctx.count("replicas_compared")
            ctx.count("final_answers_compared", len(v))
            if v != ref:
                k = next(i for i, (a, b) in enumerate(zip(ref, v))
                         if a != b) if len(v) == len(ref) else -1
                a, b = (ref[k], v[k]) if k >= 0 else ("?", "?")
                raise Discrepancy(
                    "C12", "schedule-dependent-answer:%s:%s" % (
                        name, a[0] if k >= 0 else "length"),
                    "after the same edit history, %s(%s) on %s answers %s "
                    "when no lookup was issued before and %s under the "
                    "'%s' lookup schedule" % (
                        a[0], a[1], a[2], a[3], b[3], name)
                    if k >= 0 else "answer vectors differ in length",
                    {"schedule": name})
        # and the common answer must be the scan's (judged on replica 0:
        # a discrepancy here belongs to C05/C06/C13)
        layout.probe(ctx, reps[0], model, qs[:40])
        ctx.seen("nontrivial", case.ops)
        ctx.count("history_ops", len(case.ops))
        if case.index % 97 == 0:
            ctx.sample({"ops": case.ops[:25], "total_ops": len(case.ops),
                        "schedules": SCHEDULES,
                        "final_queries": len(qs),
                        "answers_per_replica": len(ref)})


    # ---- scale: one container with hundreds / thousands of members ------
    def scale(case):
        rnd = case.rnd
        ctx.count("cases")
        sizes = ctx.params.get("scale_sizes", [40, 300, 2100])
        N = sizes[case.index % len(sizes)]
        ratio = [0.3, 0.48, 0.7, 1.1][(case.index // len(sizes)) % 4]
        what = "blocks" if (case.index // 2) % 2 == 0 else "intervals"
        model = layout.Model(rnd, "large")
        names = ["none", "after-build", "after-build+mid"]
        reps = [layout.Real(gtirb, ctx,
                            random.Random(case.seed_str + ":uuid"))
                for _ in names]

        def do(op):
            for rep in reps:
                rep.apply(op, model)
            model.apply(op)

        do({"op": "new_ir", "id": model.nid("IR")})
        do({"op": "new_mod", "id": model.nid("M"), "ir": model.irs[0]})
        sec = model.nid("S")
        do({"op": "new_sec", "id": sec, "mod": list(model.mods)[0]})
        if what == "blocks":
            iv = model.nid("I")
            do({"op": "new_iv", "id": iv, "addr": 0, "size": 5000,
                "sec": sec, "via": "ctor"})
            for _ in range(N):
                do({"op": "new_blk", "id": model.nid("B"),
                    "kind": rnd.choice(["code", "data"]),
                    "off": rnd.randint(0, 3000), "size": rnd.randint(0, 6),
                    "iv": iv, "via": "ctor"})
        else:
            for _ in range(N):
                do({"op": "new_iv", "id": model.nid("I"),
                    "addr": rnd.randint(0, 4000), "size": rnd.randint(0, 8),
                    "sec": sec, "via": "ctor"})
        case.ops = [{"scale": what, "members": N, "edit_ratio": ratio}]
        q0 = rnd.randint(0, 3000)
        for name, rep in zip(names, reps):
            if name != "none":
                layout.probe(ctx, rep, model, [q0], judge=False)
        M = int(N * ratio)
        members = list(model.blks) if what == "blocks" else list(model.ivs)
        for step in range(M):
            x = members[step % len(members)] if rnd.random() < 0.5 \
                else rnd.choice(members)
            if what == "blocks":
                do({"op": "blk_off", "id": x, "off": rnd.randint(0, 3000)})
            else:
                do({"op": "iv_addr", "id": x, "addr": rnd.randint(0, 4000)})
            if step == M // 3:
                layout.probe(ctx, reps[2], model, [q0], judge=False)
        qrnd = random.Random(case.seed_str + ":final")
        qs = model.gen_queries(qrnd, 4 if N > 1000 else 10)
        vectors = []
        for rep in reps:
            ans = []
            layout.probe(ctx, rep, model, qs, answers=ans, judge=False,
                         want=("C05", "C06"))
            layout.check_extents(ctx, rep, model, answers=ans, judge=False)
            vectors.append(ans)
        for name, v in zip(names[1:], vectors[1:]):
            ctx.count("replicas_compared")
            ctx.count("scale:replicas_compared")
            ctx.count("final_answers_compared", len(v))
            if v != vectors[0]:
                k = next(i for i, (a, b) in enumerate(zip(vectors[0], v))
                         if a != b)
                a, b = vectors[0][k], v[k]
                raise Discrepancy(
                    "C12", "schedule-dependent-answer:scale:%s:%s" % (
                        name, a[0]),
                    "with %d %s in one container and %d edits, %s(%s) on %s "
                    "answers differently when no lookup was issued before "
                    "(%d results) and under the '%s' schedule (%d results)"
                    % (N, what, M, a[0], a[1], a[2], len(a[3]), name,
                       len(b[3])), {"members": N, "edits": M})
        layout.probe(ctx, reps[0], model, qs[:2], want=("C05", "C06"))
        ctx.seen("nontrivial", ("scale", what, N, ratio, case.index))
        ctx.count("scale:members:%d" % N)

    # scale cases go to the *last* workers so that they overlap with the
    # replica histories of the others
    scale_cases = list(ctx.cases("scale", ctx.params.get("n_scale", 6)))
    for case in scale_cases:
        ctx.run_case(case, scale)
    for case in ctx.cases("replicas", ctx.params.get("n_hist", 150)):
        ctx.run_case(case, one)
