"""C02 - writer and reader each agree with the protobuf schema field by field.

Writer direction: bytes produced by save are parsed with the freshly
generated message classes (never with the library's reader) and compared with
the message the *contract table* derives from the spec.  Reader direction:
messages are assembled from the contract data by descriptor reflection (never
with the library's writer), varied in ways the Python writer never produces,
serialised, and loaded; the loaded IR's snapshot must equal the expectation.
Both under the upb and the pure-Python protobuf backends (separate worker
processes), with files of one backend read by the other."""
import os
import struct

from .. import codecmon, contract, irbuild, irio, refcodec, spec as gspec
from ..ctx import Discrepancy

META = {
    "rule": "C01 specs; writer: save -> parse with generated classes -> "
            "compare with contract-derived message (header bytes, "
            "has_address, payload one-of, enum numbers looked up by schema "
            "constant name, attribute flags, label presence, vertices, "
            "16-byte UUIDs); reader: contract-derived message with "
            "variations (has_address=false + non-zero address, shuffled "
            "repeated fields, duplicate flags, arbitrary vertices, "
            "all-default label, unset one-ofs) -> load -> snapshot. "
            "Non-trivial = >=1 module and >=4 node kinds; distinct = hash of "
            "normalised spec x direction.",
    "reach": {"writer:comparisons": 100, "reader:comparisons": 100,
              "#enum_constants_written": 90, "#enum_constants_read": 90,
              "reader:variation:has_address_false_nonzero_address": 5,
              "reader:variation:default_label_present": 5},
    "assumptions": [
        "gtmon/contract.py states the attribute<->field correspondence "
        "correctly; schema numbers come from the compiled descriptors by "
        "constant name",
        "references stay inside their module (the loader's staged order "
        "resolves exactly those)",
        "the protobuf runtimes (upb, pure Python) are correct parsers",
    ],
}


def header_check(raw, gt):
    ver = gt.version.PROTOBUF_VERSION if hasattr(gt, "version") else 4
    want = b"GTIRB\x00\x00" + bytes([repo_protobuf_version()])
    if raw[:8] != want:
        raise Discrepancy("C02", "writer:header",
                          "file header is %r, expected %r" % (raw[:8], want),
                          {})


_ver = None


def repo_protobuf_version():
    """From version.txt of the tree under test (not from the library)."""
    global _ver
    if _ver is None:
        from .. import build as gbuild
        for line in open(os.path.join(gbuild.repo_dir(), "version.txt")):
            if line.startswith("VERSION_PROTOBUF"):
                _ver = int(line.split()[1])
    return _ver


def note_enums(ctx, sp, which):
    for k, n, p in gspec.walk(sp):
        if k == "module":
            for e, f in (("ISA", "isa"), ("FileFormat", "file_format"),
                         ("ByteOrder", "byte_order")):
                ctx.seen(which, e + "." + n[f])
        elif k == "section":
            for f in n["flags"]:
                ctx.seen(which, "SectionFlag." + f)
        elif k == "code":
            ctx.seen(which, "DecodeMode." + n["decode_mode"])
        elif k == "interval":
            for e in n["exprs"].values():
                for a in e["attrs"]:
                    if isinstance(a, str):
                        ctx.seen(which, "SymAttribute." + a)
    for e in sp["edges"]:
        if e["label"]:
            ctx.seen(which, "EdgeType." + e["label"]["type"])


def writer_check(ctx, case, gt, sp, share=None):
    rnd = case.rnd
    ir, nodes = irbuild.build(sp, gt, rnd)
    raw = irio.save(ir)
    header_check(raw, gt)
    actual = irio.message_data(gt, raw)
    exp = contract.canon(contract.resolve_aux(
        contract.expected_message(sp, gt), irio.aux_decoder))
    ctx.count("writer:comparisons")
    d = contract.diff(exp, actual)
    if d:
        raise Discrepancy(
            "C02", "writer:" + irio.general_path(d[0]),
            "written message differs from the contract: %s" % d[0],
            {"diffs": d})
    note_enums(ctx, sp, "enum_constants_written")
    # the same objects written a second time after edits through public
    # attributes: every field must follow the attribute as it is now
    if rnd.random() < 0.5:
        sp2, edits = irbuild.mutate_live(rnd, gt, sp, nodes, {},
                                         rnd.randint(1, 4))
        if edits:
            actual2 = irio.message_data(gt, irio.save(ir))
            exp2 = contract.canon(contract.resolve_aux(
                contract.expected_message(sp2, gt), irio.aux_decoder))
            ctx.count("writer:comparisons_after_edit")
            for e in edits:
                ctx.count("writer:edit:" + e.split(":")[0])
            d = contract.diff(exp2, actual2)
            if d:
                raise Discrepancy(
                    "C02", "writer-after-edit:" + irio.general_path(d[0]),
                    "message written after edits (%s) differs from the "
                    "contract: %s" % (", ".join(sorted(set(edits))), d[0]),
                    {"diffs": d})
    # and the same for the IR as loaded from that file
    if rnd.random() < 0.4:
        from .. import world
        loaded = irio.load(gt, raw)
        nodes_l = {n.uuid.hex: n for n in world.reachable(gt, loaded)}
        sp3, edits = irbuild.mutate_live(rnd, gt, sp, nodes_l,
                                         irbuild.loaded_aux_values(
                                             rnd, gt, loaded),
                                         rnd.randint(1, 4))
        if edits:
            actual3 = irio.message_data(gt, irio.save(loaded))
            exp3 = contract.canon(contract.resolve_aux(
                contract.expected_message(sp3, gt), irio.aux_decoder))
            ctx.count("writer:comparisons_after_edit_of_loaded")
            d = contract.diff(exp3, actual3)
            if d:
                raise Discrepancy(
                    "C02", "writer-after-edit-of-loaded:" +
                    irio.general_path(d[0]),
                    "message written from a loaded IR after edits (%s) "
                    "differs from the contract: %s" % (
                        ", ".join(sorted(set(edits))), d[0]), {"diffs": d})
    if share is not None:
        with open(share, "wb") as f:
            f.write(raw)
    return raw


def aux_bytes(a):
    t = refcodec.parse(a["type_name"])
    return refcodec.encode_neutral(codecmon.from_json(a["data"][1]), t).hex()


def reader_message(ctx, rnd, gt, sp):
    """(message data, expected spec) with reader-side variations."""
    import copy
    exp = copy.deepcopy(sp)
    data = contract.expected_message(sp, gt)
    for holder in [data] + data["modules"]:
        for k, a in holder["aux_data"].items():
            a["data"] = aux_bytes(a)
    by_uuid = {n["uuid"]: n for k, n, p in gspec.walk(exp)}

    def var(name):
        ctx.count("reader:variation:" + name)

    for m in data["modules"]:
        for lst in (m["symbols"], m["proxies"], m["sections"]):
            rnd.shuffle(lst)
        if not m["entry_point"] and rnd.random() < 0.5:
            del m["entry_point"]  # leave the bytes field untouched
            var("entry_point_left_default")
        for s in m["sections"]:
            rnd.shuffle(s["byte_intervals"])
            rnd.shuffle(s["section_flags"])
            if s["section_flags"] and rnd.random() < 0.3:
                s["section_flags"].append(rnd.choice(s["section_flags"]))
                var("duplicate_section_flag")
            for bi in s["byte_intervals"]:
                rnd.shuffle(bi["blocks"])
                if not bi["has_address"] and rnd.random() < 0.5:
                    bi["address"] = rnd.choice([1, 4096, (1 << 64) - 1])
                    var("has_address_false_nonzero_address")
                for off, e in bi["symbolic_expressions"].items():
                    rnd.shuffle(e["attribute_flags"])
                    if e["attribute_flags"] and rnd.random() < 0.3:
                        e["attribute_flags"].append(
                            rnd.choice(e["attribute_flags"]))
                        var("duplicate_attribute_flag")
    cfg = data["cfg"]
    rnd.shuffle(cfg["edges"])
    k = rnd.random()
    if k < 0.3:
        cfg["vertices"] = []
        var("vertices_empty")
    elif k < 0.6:
        rnd.shuffle(cfg["vertices"])
        cfg["vertices"] = cfg["vertices"][:rnd.randint(0, len(cfg["vertices"]))]
        var("vertices_subset")
    for e in cfg["edges"]:
        if "label" in e and e["label"] == {"conditional": False,
                                           "direct": False, "type": 0}:
            var("default_label_present")
    return data, exp


def reader_check(ctx, case, gt, sp):
    rnd = case.rnd
    data, exp = reader_message(ctx, rnd, gt, sp)
    msg = contract.data_to_msg(data, contract.pb(gt, "IR_pb2").IR())
    raw = b"GTIRB\x00\x00" + bytes([repo_protobuf_version()]) + \
        msg.SerializeToString()
    try:
        ir = irio.load(gt, raw)
    except Exception as e:
        raise Discrepancy(
            "C02", "reader:rejects-valid-message:%s" % type(e).__name__,
            "load raised %s on a schema-valid, referentially closed "
            "message: %s" % (type(e).__name__, str(e)[:200]), {})
    snap = irbuild.snapshot(ir, gt)
    ctx.count("reader:comparisons")
    d = contract.diff(gspec.normalize(exp), snap)
    if d:
        raise Discrepancy(
            "C02", "reader:" + irio.general_path(d[0]),
            "IR loaded from a foreign message differs from the message: %s"
            % d[0], {"diffs": d})
    note_enums(ctx, sp, "enum_constants_read")


def enum_sweep_spec(gt, rnd, i):
    """Deterministic small spec that walks through every enum constant of
    the contract table (so reach does not depend on luck)."""
    E = contract.ENUMS

    def pick(e, k):
        vals = sorted(E[e].values())
        return vals[k % len(vals)]

    us = gspec.UuidSource(rnd)
    attrs = sorted(E["SymAttribute"].values())
    a0 = (i * 5) % len(attrs)
    sym = us.new()
    cb, cb2, px = us.new(), us.new(), us.new()
    sp = {"uuid": us.new(), "version": 4, "aux": {}, "edges": [], "modules": [{
        "uuid": us.new(), "name": "m%d" % i, "binary_path": "/p",
        "isa": pick("ISA", i), "file_format": pick("FileFormat", i),
        "byte_order": pick("ByteOrder", i), "preferred_addr": i,
        "rebase_delta": -i, "entry_point": cb, "aux": {},
        "proxies": [{"uuid": px}],
        "symbols": [{"uuid": sym, "name": "s", "at_end": False,
                     "payload": {"ref": cb}}],
        "sections": [{"uuid": us.new(), "name": ".t",
                      "flags": [pick("SectionFlag", i),
                                pick("SectionFlag", i + 3)],
                      "intervals": [{
                          "uuid": us.new(), "address": i, "size": 8,
                          "contents": "00", "exprs": {
                              0: {"kind": "const", "offset": 1, "sym": sym,
                                  "attrs": sorted(set(
                                      attrs[(a0 + k) % len(attrs)]
                                      for k in range(5)))}},
                          "blocks": [
                              {"uuid": cb, "kind": "code", "offset": 0,
                               "size": 1,
                               "decode_mode": pick("DecodeMode", i)},
                              {"uuid": cb2, "kind": "code", "offset": 1,
                               "size": 1,
                               "decode_mode": pick("DecodeMode", i + 1)}]}]}],
    }]}
    sp["modules"][0]["sections"][0]["flags"] = sorted(set(
        sp["modules"][0]["sections"][0]["flags"]))
    for k in range(2):
        sp["edges"].append({"src": cb, "tgt": [cb2, px][k], "label": {
            "type": pick("EdgeType", 2 * i + k), "conditional": bool(k),
            "direct": not k}})
    return sp


def cross_backend(ctx, case, gt, sp, path):
    """Read a file the other backend's process wrote for the same case."""
    raw = open(path, "rb").read()
    other = irio.message_data(gt, raw)
    exp = contract.canon(contract.resolve_aux(
        contract.expected_message(sp, gt), irio.aux_decoder))
    ctx.count("cross_backend:files_parsed")
    d = contract.diff(exp, other)
    if d:
        raise Discrepancy("C02", "cross-backend:" + irio.general_path(d[0]),
                          "file written under the other protobuf backend "
                          "parses to a different message here: %s" % d[0],
                          {"diffs": d})
    ir = irio.load(gt, raw)
    d = contract.diff(gspec.normalize(sp), irbuild.snapshot(ir, gt))
    if d:
        raise Discrepancy("C02", "cross-backend-load:" +
                          irio.general_path(d[0]),
                          "file written under the other protobuf backend "
                          "loads differently here: %s" % d[0], {"diffs": d})


def run(ctx):
    import gtirb
    from google.protobuf.internal import api_implementation
    backend = api_implementation.Type()
    ctx.count("backend:" + backend)
    share = ctx.params.get("share_dir")
    scale = 1.0 if backend == "upb" else ctx.params.get("python_scale", 0.25)

    def one(case):
        rnd = case.rnd
        if case.stream == "sweep":
            sp = enum_sweep_spec(gtirb, rnd, case.index)
        else:
            sp = gspec.gen_spec(rnd, gtirb, rnd.choice(
                ["tiny", "mixed", "mixed", "wide", "refs"]))
        case.ops = [{"spec": sp}]
        ctx.count("cases")
        if gspec.nontrivial(sp):
            ctx.seen("nontrivial", ("w", gspec.normalize(sp)))
            ctx.seen("nontrivial", ("r", gspec.normalize(sp)))
        path = None
        if share and case.index % 5 == 0:
            path = os.path.join(share, "%s-%d.gtirb" % (case.stream,
                                                        case.index))
        first = backend == ctx.params.get("first_backend", "upb")
        writer_check(ctx, case, gtirb, sp, path if first else None)
        reader_check(ctx, case, gtirb, sp)
        if path and not first and os.path.exists(path):
            cross_backend(ctx, case, gtirb, sp, path)
        if case.index % 211 == 0:
            ctx.sample({"backend": backend, "stream": case.stream,
                        "summary": gspec.summary(sp)})

    for case in ctx.cases("sweep", 24):
        ctx.run_case(case, one)
    for case in ctx.cases("spec", int(ctx.params.get("n_spec", 400) * scale)):
        ctx.run_case(case, one)
    for u in contract.unmapped_schema_constants(gtirb):
        ctx.note("schema enum constant without a contract row: " + u)
    for u in sorted(contract.UNMAPPED):
        ctx.note("schema field without a contract row (default-valued, "
                 "not judged): " + u)
    ctx.note("protobuf backend observed: " + backend)
