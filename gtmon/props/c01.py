"""C01 - save then load reproduces the IR exactly.

Monitor: generated self-contained specs built through the public API under
random construction strategies; oracle = equality of canonical snapshots
(public attributes only; AuxData compared after decoding) original vs loaded
vs re-loaded, deep_eq in both directions, and message-level equality of the
re-saved file."""
from .. import contract, irbuild, irio, spec as gspec
from ..ctx import Discrepancy

META = {
    "rule": "specs from gtmon/spec.py (profiles tiny/mixed/wide/refs: 0-3 "
            "modules, boundary addresses/sizes/offsets 0,1,2^63,2^64-1, "
            "negative int64, empty/non-ASCII/NUL names, every enum constant, "
            "payload None/0/value/referent, labels None/all-false/other, "
            "known and unknown numeric attributes, AuxData at IR and module "
            "level) built under random construction strategies; half of the "
            "cases are then edited after the first save (public attributes, "
            "and AuxData containers through references the caller kept) and "
            "saved and loaded again; 15% go through save_protobuf/"
            "load_protobuf on a path. Non-trivial "
            "= at least one module and >= 4 node kinds; distinct = hash of "
            "the normalised spec.",
    "reach": {"oracle_comparisons": 300, "#boundary_classes": 50,
              "#build_routes": 25, "generations:3": 100, "resave_after_edit": 100,
              "resave_after_edit:aux-container-edited-through-kept-reference": 30},
    "assumptions": [
        "snapshot() reads public attributes only; equality of snapshots is "
        "the meaning of 'identical observable content'",
        "a module's entry point is a code block of any module of the same "
        "IR, earlier or later in module order",
        "known symbolic-expression attributes are generated as enum members "
        "(a raw int of a known constant legitimately loads as the member)",
    ],
}


def first_diff(want, got):
    d = contract.diff(want, got)
    return d


def check_spec(ctx, case, gt, sp, generations=2):
    rnd = case.rnd
    want = gspec.normalize(sp)
    stats = {}
    ir, nodes, builder = irbuild.build(sp, gt, rnd, stats,
                                       want_builder=True)
    for k in stats:
        ctx.seen("build_routes", k)
        ctx.count("build:" + k, stats[k])
    snap = irbuild.snapshot(ir, gt)
    ctx.count("oracle_comparisons")
    d = contract.diff(want, snap)
    if d:
        raise Discrepancy(
            "C01", "api-construction:" + irio.general_path(d[0]),
            "IR built through the public API differs from its spec: %s"
            % d[0], {"diffs": d, "build_routes": sorted(stats)})
    via_path = rnd.random() < 0.15
    if via_path:
        ctx.count("io:via_path")
        raw = irio.save_via_path(ir, rnd)
        if raw != irio.save(ir) and irio.message_data(gt, raw) != \
                irio.message_data(gt, irio.save(ir)):
            raise Discrepancy("C01", "save_protobuf-path-differs",
                              "save_protobuf(path) wrote different content "
                              "than save_protobuf_file(stream)", {})
    else:
        raw = irio.save(ir)
    try:
        ir2 = irio.load_via_path(gt, raw, rnd) if via_path \
            else irio.load(gt, raw)
    except Exception as e:
        raise Discrepancy("C01", "load-rejects-saved-file:%s"
                          % type(e).__name__,
                          "load raised %s on a file produced by save from a "
                          "self-contained IR: %s" % (type(e).__name__,
                                                     str(e)[:160]), {})
    snap2 = irbuild.snapshot(ir2, gt)
    ctx.count("oracle_comparisons")
    d = contract.diff(want, snap2)
    if d:
        raise Discrepancy(
            "C01", "roundtrip-diff:" + irio.general_path(d[0]),
            "loaded IR differs from the saved one: %s" % d[0],
            {"diffs": d})
    ctx.count("deep_eq_checks", 2)
    if not ir.deep_eq(ir2):
        raise Discrepancy("C01", "deep_eq:original-vs-loaded",
                          "original.deep_eq(loaded) is False although the "
                          "snapshots are equal", {})
    if not ir2.deep_eq(ir):
        raise Discrepancy("C01", "deep_eq:loaded-vs-original",
                          "loaded.deep_eq(original) is False although the "
                          "snapshots are equal", {})
    raw_prev, ir_prev = raw, ir2
    for g in range(generations):
        rawn = irio.save(ir_prev)
        a, b = irio.message_data(gt, raw_prev), irio.message_data(gt, rawn)
        ctx.count("resave_comparisons")
        d = contract.diff(a, b)
        if d:
            raise Discrepancy(
                "C01", "resave-differs:" + irio.general_path(d[0]),
                "saving the loaded IR again gives a file with different "
                "content: %s" % d[0], {"diffs": d, "generation": g + 2})
        irn = irio.load(gt, rawn)
        d = contract.diff(want, irbuild.snapshot(irn, gt))
        if d:
            raise Discrepancy(
                "C01", "roundtrip-diff-generation:" + irio.general_path(d[0]),
                "IR differs after %d save/load generations: %s"
                % (g + 2, d[0]), {"diffs": d})
        raw_prev, ir_prev = rawn, irn
        ctx.count("generations:%d" % (g + 2))
    # the IR is saved, then edited through public attributes and through
    # references the caller kept, then saved again: the second file must
    # describe the IR as it is now (save keeps no hidden state)
    if rnd.random() < 0.5:
        sp2, edits = irbuild.mutate_live(rnd, gt, sp, nodes,
                                         builder.aux_values,
                                         rnd.randint(1, 4))
        if edits:
            for e in edits:
                ctx.count("resave_after_edit:" + e)
            ctx.count("resave_after_edit")
            want2 = gspec.normalize(sp2)
            rawb = irio.save(ir)
            irb = irio.load(gt, rawb)
            d = contract.diff(want2, irbuild.snapshot(irb, gt))
            if d:
                raise Discrepancy(
                    "C01", "save-after-edit:" + irio.general_path(d[0]),
                    "an IR saved, edited (%s) and saved again: the second "
                    "file does not describe the edited IR: %s"
                    % (", ".join(sorted(set(edits))), d[0]), {"diffs": d})
            if not ir.deep_eq(irb) or not irb.deep_eq(ir):
                raise Discrepancy("C01", "save-after-edit:deep_eq",
                                  "edited IR and its reloaded second save "
                                  "are not deep_eq", {})
    # the same for an IR that was *loaded*: edited through public
    # attributes, saved, loaded - the file must describe it as edited
    # (nothing remembered from the file it came from may win)
    if rnd.random() < 0.5:
        from .. import world
        loaded = ir_prev
        nodes_l = {n.uuid.hex: n for n in world.reachable(gt, loaded)}
        sp3, edits = irbuild.mutate_live(rnd, gt, sp, nodes_l,
                                         irbuild.loaded_aux_values(
                                             rnd, gt, loaded),
                                         rnd.randint(1, 4))
        if edits:
            for e in edits:
                ctx.count("resave_loaded_after_edit:" + e.split(":")[0])
            ctx.count("resave_loaded_after_edit")
            irc = irio.load(gt, irio.save(loaded))
            d = contract.diff(gspec.normalize(sp3),
                              irbuild.snapshot(irc, gt))
            if d:
                raise Discrepancy(
                    "C01", "save-loaded-after-edit:" +
                    irio.general_path(d[0]),
                    "a loaded IR edited (%s) and saved: the file does not "
                    "describe the edited IR: %s"
                    % (", ".join(sorted(set(edits))), d[0]), {"diffs": d})
    return ir, nodes, raw, ir2


def run(ctx):
    import gtirb

    def one(case):
        rnd = case.rnd
        profile = rnd.choice(["tiny", "mixed", "mixed", "mixed", "wide",
                              "refs"])
        if ctx.tier == "thorough" and rnd.random() < 0.02:
            profile = "big"  # thousands of nodes
        sp = gspec.gen_spec(rnd, gtirb, profile)
        case.ops = [{"spec": sp}]
        ctx.count("cases")
        ctx.count("profile:" + profile)
        for c in gspec.boundary_classes(sp):
            ctx.seen("boundary_classes", c)
        norm = gspec.normalize(sp)
        if gspec.nontrivial(sp):
            ctx.seen("nontrivial", norm)
        check_spec(ctx, case, gtirb, sp,
                   generations=2 if case.index % 2 == 0 else 1)
        if case.index % 199 == 0:
            ctx.sample({"profile": profile, "summary": gspec.summary(sp),
                        "spec_modules_head": repr(norm["modules"][:1])[:600]})

    for case in ctx.cases("spec", int(ctx.params.get("n_spec", 400) * (0.15 if ctx.params.get("config") == "python" else 1))):
        ctx.run_case(case, one)
    for u in contract.unmapped_schema_constants(gtirb):
        ctx.note("schema enum constant without a contract row: " + u)
