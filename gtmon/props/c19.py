"""C19 - interval byte storage and block views stay consistent.

Monitor with a reference model (a bytearray and one integer): random
sequences of size / initialized_size assignments, in-place byte writes and
whole-contents assignments; after every step initialized_size ==
len(contents) <= size and contents equal the model; the interval's IR is
saved and loaded back; block address / contents / contains_offset /
contains_address are compared with their arithmetic definitions at every
critical coordinate +-1.  Constructor and loader must reject more stored
bytes than the size."""
from .. import foreign, irio
from ..ctx import Discrepancy

U64 = (1 << 64) - 1
META = {
    "rule": "histories of 10-60 steps on one interval (size 0-24 or near "
            "2^64, address None/0/small/near 2^64) with 0-5 blocks at "
            "offsets/sizes inside, straddling and beyond the stored bytes "
            "and the interval; steps: size=n (growing, shrinking below the "
            "stored bytes, 0), initialized_size=n (<= size), byte writes, "
            "contents assignment (<= size), block offset/size edits, block "
            "detach/attach; constructor/loader negatives with more bytes "
            "than size. Non-trivial = every history; distinct = hash of the "
            "operation list.",
    "reach": {"state_checks": 10000, "op:size_shrink_below_stored": 300,
              "op:init_grow": 300, "op:init_shrink": 300,
              "block_view_checks": 50000, "save_load_roundtrips": 1000,
              "ctor_rejects": 200, "loader_rejects": 100},
    "assumptions": [
        "initialized_size assignments stay <= size and content assignments "
        "<= size, as the quantifier states; what the model demands after "
        "size=n is min(len, n) stored bytes, unchanged prefix",
    ],
}


def block_views(ctx, gt, bi, blocks, model, address, size):
    crit = {0, len(model), size}
    for b in blocks:
        crit |= {b.offset, b.offset + b.size}
    pts = set()
    for c in crit:
        pts |= {c - 1, c, c + 1}
    for b in blocks:
        attached = b.byte_interval is bi
        ctx.count("block_view_checks")
        want_addr = None if (not attached or address is None) \
            else address + b.offset
        if b.address != want_addr:
            raise Discrepancy("C19", "block.address",
                              "block.address is %r, interval address %r + "
                              "offset %r gives %r" % (b.address, address,
                                                      b.offset, want_addr),
                              {})
        want_c = bytes(model[b.offset:b.offset + b.size]) if attached else b""
        if bytes(b.contents) != want_c:
            raise Discrepancy("C19", "block.contents",
                              "block.contents is %r, interval bytes "
                              "[%d:%d] are %r" % (bytes(b.contents),
                                                  b.offset,
                                                  b.offset + b.size, want_c),
                              {})
        # what a caller does to the returned bytes is the caller's business:
        # it must not show in this block's, another block's or the
        # interval's contents afterwards
        got = b.contents
        if isinstance(got, bytearray):
            ctx.count("returned_contents_scribbled")
            got += b"\xa5\x5a\xa5"
            if len(got) > 3:
                got[0] ^= 0xFF
            for b2 in blocks:
                w2 = bytes(model[b2.offset:b2.offset + b2.size]) \
                    if b2.byte_interval is bi else b""
                if bytes(b2.contents) != w2:
                    raise Discrepancy(
                        "C19", "block.contents-aliased",
                        "after the bytes returned by one block's contents "
                        "were edited by the caller, a block's contents are "
                        "%r, interval bytes [%d:%d] are %r" % (
                            bytes(b2.contents)[:24], b2.offset,
                            b2.offset + b2.size, w2[:24]), {})
            if bytes(bi.contents) != bytes(model):
                raise Discrepancy(
                    "C19", "interval.contents-aliased",
                    "editing the bytes returned by block.contents changed "
                    "the interval's stored bytes", {})
        for p in pts:
            ctx.count("block_view_checks", 2)
            want = b.offset <= p < b.offset + b.size
            if b.contains_offset(p) != want:
                raise Discrepancy("C19", "block.contains_offset",
                                  "contains_offset(%d) is %s for offset %d "
                                  "size %d" % (p, not want, b.offset,
                                               b.size), {})
            a = p + (address or 0)
            want_a = attached and address is not None and \
                b.offset <= a - address < b.offset + b.size
            if b.contains_address(a) != want_a:
                raise Discrepancy("C19", "block.contains_address",
                                  "contains_address(%d) is %s (interval "
                                  "address %r, offset %d, size %d)" % (
                                      a, not want_a, address, b.offset,
                                      b.size), {})


LONG_STEPS = [255, 256, 257, 4095, 4096, 4097, 65535, 65536, 65537,
              (1 << 20) - 1, 1 << 20, (1 << 20) + 1]


def run(ctx):
    import gtirb
    gt = gtirb

    def negatives(case):
        rnd = case.rnd
        for _ in range(6):
            size = rnd.choice([0, 1, 3, 8])
            n = size + rnd.choice([1, 2, 5])
            ctx.count("cases")
            for kw in ({"contents": b"x" * n, "size": size},
                       {"initialized_size": n, "size": size},
                       {"contents": b"x" * n, "size": size,
                        "initialized_size": n}):
                try:
                    gt.ByteInterval(**kw)
                except ValueError:
                    ctx.count("ctor_rejects")
                    continue
                raise Discrepancy("C19", "ctor-accepts-more-bytes-than-size",
                                  "ByteInterval(%s) accepted %d stored "
                                  "bytes for size %d" % (
                                      ", ".join(sorted(kw)), n, size), {})
            data = {"uuid": "%032x" % rnd.getrandbits(128), "version": 4,
                    "cfg": {}, "modules": [{
                        "uuid": "%032x" % rnd.getrandbits(128), "name": "m",
                        "sections": [{
                            "uuid": "%032x" % rnd.getrandbits(128),
                            "name": "s", "byte_intervals": [{
                                "uuid": "%032x" % rnd.getrandbits(128),
                                "size": size, "contents": "00" * n}]}]}]}
            raw = foreign.to_bytes(gt, data, version_byte=4)
            try:
                irio.load(gt, raw)
            except ValueError:
                ctx.count("loader_rejects")
                continue
            raise Discrepancy("C19", "loader-accepts-more-bytes-than-size",
                              "load accepted an interval with %d stored "
                              "bytes and size %d" % (n, size), {})

    def one(case):
        rnd = case.rnd
        ctx.count("cases")
        far = rnd.random() < 0.2
        # 'long' histories grow and cut the stored bytes by amounts around
        # the powers of two at which a chunked / shared-buffer padding path
        # would plausibly switch (far more bytes than the small regime)
        long_ = not far and rnd.random() < 0.06
        if long_:
            ctx.count("regime:long-contents")
        address = rnd.choice([None, 0, 5, 100]) if not far else \
            rnd.choice([U64, U64 - 3, 1 << 63])
        size = rnd.randint(0, 24) if not far else rnd.choice(
            [U64, 1 << 63, 30])
        if long_:
            size = 1 << 21
        n0 = min(size, rnd.randint(0, 12))
        model = bytearray(rnd.randrange(256) for _ in range(n0))
        ir = gt.IR()
        m = gt.Module(name="m", ir=ir)
        s = gt.Section(name="s", module=m)
        bi = gt.ByteInterval(address=address, size=size,
                             contents=bytes(model), section=s)
        blocks = []
        for _ in range(rnd.randint(0, 5)):
            cls = rnd.choice([gt.CodeBlock, gt.DataBlock])
            kw = {}
            if cls is gt.CodeBlock and rnd.random() < 0.5:
                # attributes C19 does not mention must not matter to it
                kw["decode_mode"] = rnd.choice(list(gt.CodeBlock.DecodeMode))
                ctx.count("code_blocks_with_explicit_decode_mode")
            blocks.append(cls(offset=rnd.randint(0, 26),
                              size=rnd.randint(0, 8), byte_interval=bi,
                              **kw))

        # a second interval built from the very bytearray object the first
        # one exposes: the two must not share storage afterwards
        twin = twin_model = None
        if rnd.random() < 0.3:
            twin_model = bytes(bi.contents)
            twin = gt.ByteInterval(size=max(size, len(twin_model)),
                                   contents=bi.contents)
            ctx.count("aliasing_twins")

        def check(after):
            ctx.count("state_checks")
            if twin is not None and (
                    bytes(twin.contents) != twin_model or
                    twin.initialized_size != len(twin_model)):
                raise Discrepancy(
                    "C19", "storage-shared-between-intervals",
                    "an interval constructed from another interval's "
                    "contents object changed when the other one was edited "
                    "(after %s): %r, expected %r" % (
                        after, bytes(twin.contents), twin_model), {})
            if bi.size != size:
                raise Discrepancy("C19", "size-value",
                                  "size is %r after %s, assigned %r" % (
                                      bi.size, after, size), {})
            if bi.initialized_size != len(bi.contents):
                raise Discrepancy(
                    "C19", "initialized_size!=len(contents)",
                    "initialized_size %d, %d stored bytes (after %s)" % (
                        bi.initialized_size, len(bi.contents), after), {})
            if len(bi.contents) > bi.size:
                raise Discrepancy(
                    "C19", "stored-bytes-exceed-size:" + after.split("=")[0],
                    "%d stored bytes but size %d after %s" % (
                        len(bi.contents), bi.size, after), {})
            if bytes(bi.contents) != bytes(model):
                raise Discrepancy(
                    "C19", "contents:" + after.split("=")[0],
                    "contents are %d bytes %r..., expected %d bytes %r... "
                    "after %s" % (
                        len(bi.contents), bytes(bi.contents)[:24],
                        len(model), bytes(model)[:24], after), {})
            block_views(ctx, gt, bi, blocks, model, address, size)

        def roundtrip(after):
            try:
                raw = irio.save(ir)
                ir2 = irio.load(gt, raw)
            except Exception as e:
                raise Discrepancy(
                    "C19", "cannot-save-and-load-back:%s:%s" % (
                        after, type(e).__name__),
                    "after %s the interval's IR cannot be saved and loaded "
                    "back: %s: %s" % (after, type(e).__name__, str(e)[:120]),
                    {})
            b2 = next(iter(ir2.byte_intervals))
            ctx.count("save_load_roundtrips")
            if (b2.size, bytes(b2.contents), b2.address) != (
                    size, bytes(model), address):
                raise Discrepancy("C19", "roundtrip-differs:" + after,
                                  "interval differs after save/load", {})

        check("construction")
        for step in range(rnd.choice([10, 25, 60])):
            op = rnd.choice(["size", "size", "init", "init", "write",
                             "assign", "blk", "addr", "detach"])
            if op == "size":
                if far and rnd.random() < 0.5:
                    size = rnd.choice([U64, 1 << 63, 40, 3])
                else:
                    size = rnd.choice([0, rnd.randint(0, 24),
                                       max(0, len(model) - rnd.randint(1, 4)),
                                       len(model), len(model) + 1])
                if long_ and rnd.random() < 0.8:
                    size = rnd.choice([1 << 21, 1 << 21, len(model),
                                       max(0, len(model) - rnd.choice(
                                           LONG_STEPS)), 70000])
                if size < len(model):
                    ctx.count("op:size_shrink_below_stored")
                    del model[size:]
                case.ops.append({"op": "size", "value": size})
                bi.size = size
                after = "size=%d" % size
            elif op == "init":
                n = rnd.randint(0, min(size, 30))
                if long_ and rnd.random() < 0.7:
                    gap = rnd.choice(LONG_STEPS)
                    n = len(model) + rnd.choice([gap, gap, -gap])
                    if not 0 <= n <= size:
                        n = rnd.randint(0, min(size, 30))
                    ctx.seen("long_init_steps", n - len(model))
                ctx.count("op:init_grow" if n > len(model) else
                          "op:init_shrink" if n < len(model)
                          else "op:init_same")
                if n > len(model):
                    model += b"\0" * (n - len(model))
                else:
                    del model[n:]
                case.ops.append({"op": "initialized_size", "value": n})
                bi.initialized_size = n
                after = "initialized_size=%d" % n
            elif op == "write":
                if not model or not isinstance(bi.contents, bytearray):
                    continue
                i, v = rnd.randrange(len(model)), rnd.randrange(256)
                model[i] = v
                case.ops.append({"op": "write", "index": i, "value": v})
                bi.contents[i] = v
                after = "byte write"
            elif op == "assign":
                n = rnd.randint(0, min(size, 16))
                new = bytes(rnd.randrange(256) for _ in range(n))
                model[:] = new
                case.ops.append({"op": "contents", "len": n})
                kind = rnd.choice(["bytearray", "bytearray", "bytes"])
                ctx.count("contents_assigned_as:" + kind)
                case.ops[-1]["as"] = kind
                bi.contents = {"bytearray": bytearray,
                               "bytes": bytes}[kind](new)
                after = "contents assignment"
            elif op == "blk":
                if not blocks:
                    continue
                b = rnd.choice(blocks)
                k = rnd.random()
                if k < 0.15 and isinstance(b, gt.CodeBlock):
                    b.decode_mode = rnd.choice(list(gt.CodeBlock.DecodeMode))
                elif k < 0.55:
                    b.offset = rnd.randint(0, 26)
                else:
                    b.size = rnd.randint(0, 8)
                case.ops.append({"op": "block-edit"})
                after = "block edit"
            elif op == "addr":
                address = rnd.choice([None, 0, 7, 100, U64 - 2])
                case.ops.append({"op": "address", "value": address})
                bi.address = address
                after = "address change"
            else:
                if not blocks:
                    continue
                b = rnd.choice(blocks)
                b.byte_interval = None if b.byte_interval is bi else bi
                case.ops.append({"op": "block-detach/attach"})
                after = "block detach/attach"
            check(after)
            if rnd.random() < 0.3:
                roundtrip(after.split("=")[0])
        roundtrip("end")
        ctx.seen("nontrivial", case.ops)
        if case.index % 97 == 0:
            ctx.sample({"ops": case.ops[:20]})

    def ctor_forms(case):
        """Constructor with every combination of size / initialized_size /
        contents that it accepts: stored bytes = contents padded with zeros
        or truncated to initialized_size; size defaults to len(contents)."""
        rnd = case.rnd
        for _ in range(12):
            ctx.count("cases")
            c = bytes(rnd.randrange(1, 256) for _ in range(rnd.randint(0, 9)))
            size = rnd.choice([None, len(c), len(c) + rnd.randint(0, 5),
                               rnd.randint(0, 12)])
            init = rnd.choice([None, len(c), rnd.randint(0, 14)])
            kw = {}
            if size is not None:
                kw["size"] = size
            if init is not None:
                kw["initialized_size"] = init
            kw["contents"] = rnd.choice([bytes, bytearray])(c)
            eff_size = len(c) if size is None else size
            eff_init = len(c) if init is None else init
            case.ops = [{"ctor": {k: (v if isinstance(v, int) else len(v))
                                  for k, v in kw.items()}}]
            try:
                bi = gt.ByteInterval(**kw)
            except ValueError:
                if eff_init <= eff_size:
                    raise Discrepancy(
                        "C19", "ctor-rejects-valid-sizes",
                        "ByteInterval(size=%r, initialized_size=%r, %d "
                        "content bytes) raised ValueError" % (
                            size, init, len(c)), {})
                ctx.count("ctor_rejects")
                continue
            if eff_init > eff_size:
                raise Discrepancy(
                    "C19", "ctor-accepts-more-bytes-than-size",
                    "ByteInterval(size=%r, initialized_size=%r, %d content "
                    "bytes) was accepted" % (size, init, len(c)), {})
            want = (c + b"\0" * eff_init)[:eff_init]
            ctx.count("ctor_forms_checked")
            if (bi.size, bi.initialized_size, bytes(bi.contents)) != (
                    eff_size, eff_init, want):
                raise Discrepancy(
                    "C19", "ctor-stored-bytes",
                    "ByteInterval(size=%r, initialized_size=%r, contents=%r)"
                    " has size %r, initialized_size %r, contents %r; "
                    "expected %r, %r, %r" % (
                        size, init, c, bi.size, bi.initialized_size,
                        bytes(bi.contents), eff_size, eff_init, want), {})

    for case in ctx.cases("ctor", ctx.params.get("n_neg", 40)):
        ctx.run_case(case, ctor_forms)
    for case in ctx.cases("bytes", ctx.params.get("n_hist", 300)):
        ctx.run_case(case, one)
    for case in ctx.cases("neg", ctx.params.get("n_neg", 40)):
        ctx.run_case(case, negatives)
