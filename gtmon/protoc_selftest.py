"""Informational self-test of the mini-protoc: byte-compare the FileDescriptorProtos it produces for /repo/proto
with those embedded in the installed gtirb wheel (produced by the real protoc).  Files that legitimately differ
between the two releases are reported, not failed."""
import importlib, os, re, sys
from . import build as gbuild, miniprotoc

def main():
    files = miniprotoc.compile_dir(os.path.join(gbuild.repo_dir(), "proto"))
    try:
        import gtirb  # the wheel in site-packages (this process never imports the build)
    except Exception as e:
        print("protoc-selftest: skipped (no installed gtirb wheel: %s)" % e); return 0
    same, diff = [], []
    for fn, fdp in sorted(files.items()):
        base = fn[:-6]
        try:
            mod = importlib.import_module("gtirb.proto.%s_pb2" % base)
            ref = mod.DESCRIPTOR.serialized_pb
        except Exception as e:
            diff.append("%s(no reference: %s)" % (base, type(e).__name__)); continue
        (same if ref == fdp.SerializeToString() else diff).append(base)
    print("protoc-selftest: byte-identical to real protoc output for %d/%d files; differing (release skew or edited): %s"
          % (len(same), len(files), ", ".join(diff) or "none"))
    return 0

if __name__ == "__main__":
    sys.exit(main())
