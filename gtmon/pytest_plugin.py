"""Suite-under-monitor: run the repository's own tests against the
working-tree build with the world observer looking at every live gtirb node
after each test (tools/suite_under_monitor).  An extra workload written by
someone else; used to look for false alarms of gtmon/world.py, not a
registered check."""
import collections
import gc
import json
import os

import pytest

import gtirb
from gtmon import world

STATS = collections.Counter()
FINDINGS = collections.Counter()


def observe(tag):
    gc.collect()
    nodes = [o for o in gc.get_objects() if isinstance(o, gtirb.Node)]
    # objects still under construction (no collections yet) are skipped
    def built(n):
        try:
            world.collections_of(gtirb, n)
            world.parent_of(gtirb, n)
            return hasattr(n, "uuid")
        except AttributeError:
            return False
    nodes = [n for n in nodes if built(n)]
    irs = [n for n in nodes if isinstance(n, gtirb.IR)]
    ok_irs = []
    for ir in irs:
        uu = collections.Counter(x.uuid for x in world.reachable(gtirb, ir))
        if any(v > 1 for v in uu.values()):
            STATS["irs_skipped_duplicate_uuid_(C03_precondition)"] += 1
        else:
            ok_irs.append(ir)
    STATS["nodes_observed"] += len(nodes)
    STATS["irs_observed"] += len(ok_irs)
    cnt = collections.Counter()
    F = world.check(gtirb, ok_irs, [n for n in nodes
                                    if not isinstance(n, gtirb.IR)],
                    names=("", "nope"), counters=cnt)
    STATS.update(cnt)
    for f in F:
        FINDINGS["%s %s %s [%s]" % (f[0], f[1], f[2], tag)] += 1


@pytest.hookimpl(hookwrapper=True)
def pytest_runtest_call(item):
    yield
    try:
        observe(item.nodeid)
    except Exception as e:  # the observer must never break the suite
        FINDINGS["observer crashed: %s %s" % (type(e).__name__, e)] += 1
    STATS["tests"] += 1


def pytest_sessionfinish(session):
    out = os.environ.get("GTMON_SUITE_OUT")
    data = {"stats": dict(STATS), "findings": dict(FINDINGS)}
    print("\nGTMON", json.dumps(data)[:3000])
    if out:
        with open(out, "w") as f:
            json.dump(data, f, indent=1)
