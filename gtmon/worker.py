"""Child-process entry: python -m gtmon.worker <json-args>.

Runs one property driver against the freshly built working tree, which must
be the *only* gtirb importable here (asserted)."""
import importlib
import json
import os
import resource
import sys
import traceback


def main():
    args = json.loads(sys.argv[1])
    build_dir = args["build_dir"]
    out = {"worker": args["worker"], "fatal": None}
    try:
        if args.get("recursion_limit"):
            sys.setrecursionlimit(args["recursion_limit"])
        cpu_hard = args.get("cpu_hard_s")
        if cpu_hard:
            resource.setrlimit(resource.RLIMIT_CPU, (cpu_hard, cpu_hard + 5))
        mem = args.get("mem_limit_mb", 3072) * 1024 * 1024
        resource.setrlimit(resource.RLIMIT_AS, (mem, mem))
        import gtirb

        real = os.path.realpath(gtirb.__file__)
        if not real.startswith(os.path.realpath(build_dir) + os.sep):
            raise RuntimeError(
                "gtirb imported from %s, not from the working-tree build %s"
                % (real, build_dir))
        from gtmon.ctx import Ctx

        mod = importlib.import_module("gtmon.props." + args["prop"].lower())
        ctx = Ctx(args["prop"], args["tier"], args["seed"], args["worker"],
                  args["nworkers"], args.get("params"))
        ctx.cpu_budget = args.get("cpu_budget_s")
        if args.get("replay") is not None:
            rec = args["replay"]
            ctx.verbose = True
            if hasattr(mod, "replay"):
                mod.replay(ctx, rec)
            else:
                c = rec.get("case") or {}
                ctx.seed = c.get("seed", ctx.seed)
                ctx.tier = c.get("tier", ctx.tier)
                ctx.only_case = (c.get("stream"), c.get("index"))
                mod.run(ctx)
        else:
            mod.run(ctx)
        out.update(ctx.result())
        out["meta"] = getattr(mod, "META", {})
        from google.protobuf.internal import api_implementation

        out["protobuf_backend"] = api_implementation.Type()
        out["gtirb_file"] = real
    except BaseException as e:  # report, never hang the parent
        out["fatal"] = "%s: %s\n%s" % (
            type(e).__name__, e, traceback.format_exc()[-4000:])
    with open(args["out"], "w") as f:
        json.dump(out, f, default=repr)


if __name__ == "__main__":
    main()
