"""Child-process entry: python -m gtmon.worker <json-args>.

Runs one property driver against the freshly built working tree, which must
be the *only* gtirb importable here (asserted)."""
import importlib
import json
import os
import resource
import sys
import traceback


def install_reach(build_dir):
    """sys.monitoring PY_START (disabled per code object after the first
    hit): which functions of the package under test this worker entered.
    Evidence only - never gates a verdict."""
    reached = set()
    mon = getattr(sys, "monitoring", None)
    if mon is None:
        return reached
    prefix = os.path.join(os.path.realpath(build_dir), "gtirb") + os.sep
    tool = mon.PROFILER_ID

    def on_start(code, offset):
        fn = code.co_filename
        if fn.startswith(prefix) and "_pb2" not in fn:
            reached.add("%s:%s" % (fn[len(prefix):], code.co_qualname))
        return mon.DISABLE

    try:
        mon.use_tool_id(tool, "gtmon-reach")
        mon.register_callback(tool, mon.events.PY_START, on_start)
        mon.set_events(tool, mon.events.PY_START)
    except Exception:
        pass
    return reached


def main():
    args = json.loads(sys.argv[1])
    build_dir = args["build_dir"]
    out = {"worker": args["worker"], "fatal": None}
    try:
        if args.get("recursion_limit"):
            sys.setrecursionlimit(args["recursion_limit"])
        cpu_hard = args.get("cpu_hard_s")
        if cpu_hard:
            resource.setrlimit(resource.RLIMIT_CPU, (cpu_hard, cpu_hard + 5))
        mem = args.get("mem_limit_mb", 3072) * 1024 * 1024
        resource.setrlimit(resource.RLIMIT_AS, (mem, mem))
        import gtirb

        real = os.path.realpath(gtirb.__file__)
        if not real.startswith(os.path.realpath(build_dir) + os.sep):
            raise RuntimeError(
                "gtirb imported from %s, not from the working-tree build %s"
                % (real, build_dir))
        from gtmon.ctx import Ctx
        reached = install_reach(build_dir)

        mod = importlib.import_module("gtmon.props." + args["prop"].lower())
        ctx = Ctx(args["prop"], args["tier"], args["seed"], args["worker"],
                  args["nworkers"], args.get("params"))
        ctx.cpu_budget = args.get("cpu_budget_s")
        if args.get("replay") is not None:
            rec = args["replay"]
            ctx.verbose = True
            if hasattr(mod, "replay"):
                mod.replay(ctx, rec)
            else:
                c = rec.get("case") or {}
                ctx.seed = c.get("seed", ctx.seed)
                ctx.tier = c.get("tier", ctx.tier)
                ctx.only_case = (c.get("stream"), c.get("index"))
                mod.run(ctx)
        else:
            mod.run(ctx)
        out.update(ctx.result())
        out["meta"] = getattr(mod, "META", {})
        from google.protobuf.internal import api_implementation

        out["protobuf_backend"] = api_implementation.Type()
        out["gtirb_file"] = real
        out["functions_reached"] = sorted(reached)
    except BaseException as e:  # report, never hang the parent
        out["fatal"] = "%s: %s\n%s" % (
            type(e).__name__, e, traceback.format_exc()[-4000:])
    with open(args["out"], "w") as f:
        json.dump(out, f, default=repr)


if __name__ == "__main__":
    main()
