"""Layout engine (C05, C06, C12, C13): a pure-data model of intervals, blocks
and symbolic expressions; edit histories generated from the model alone (so
one history can be replayed on several replicas with different lookup
schedules); scan oracles written from the property texts; probes through
every public lookup at every scope.

Oracle comparison is the sandwich must <= got <= may, got duplicate-free:
  - 'on' with step > 1: must = a member of the query lies on the node, may =
    the query's hull [start, stop) intersects it;
  - section/module/IR scope: a block (or the part of it) outside its
    interval's extent [address, address+size) is in may but not in must;
    same for expressions stored beyond the extent.
With step 1 and blocks inside their intervals must == may (exact).
"""
import collections

from . import irio
from .ctx import Discrepancy

U64 = (1 << 64) - 1


def kd(lid):
    """Kind letter of a logical id: R (IR), M, S, I (interval), B."""
    return "R" if lid.startswith("IR") else lid[0]


SCOPE_NAME = {"S": "section", "M": "module", "R": "ir"}


def members(q):
    return range(q, q + 1) if isinstance(q, int) else q


def hull(q):
    r = members(q)
    return r.start, r.stop


def any_member_in(q, lo, hi):
    """Does the range q have a member in [lo, hi)?  O(1)."""
    r = members(q)
    if r.step <= 0 or not r or lo >= hi:
        return False
    lo2, hi2 = max(lo, r.start), min(hi, r.stop)
    if lo2 >= hi2:
        return False
    # first member >= lo2
    k = (lo2 - r.start + r.step - 1) // r.step
    first = r.start + k * r.step
    return first < hi2 and first in r


# ---------------------------------------------------------------------------
class Model:
    """Pure data.  ids: IRn, Mn, Sn, In, Bn (blocks), exprs per interval."""

    def __init__(self, rnd, regime="small"):
        self.rnd = rnd
        self.regime = regime
        self.n = 0
        self.irs, self.mods, self.secs = [], {}, {}
        self.ivs, self.blks = {}, {}
        self.exprs = {}  # interval id -> {offset: expr label}
        self.nexpr = 0

    def nid(self, p):
        self.n += 1
        return "%s%d" % (p, self.n)

    # coordinate generators
    def addr(self):
        r = self.rnd
        if self.regime == "medium":
            return r.choice([None, r.randint(0, 120), r.randint(0, 120),
                             r.randint(0, 120), r.randint(0, 120)])
        if self.regime == "large":
            return r.choice([None, r.randint(0, 4000), r.randint(0, 4000),
                             r.randint(0, 4000)])
        if self.regime == "small":
            return r.choice([None, r.randint(0, 30), r.randint(0, 30),
                             r.randint(0, 30)])
        return r.choice([None, 0, 1, 1 << 63, U64, U64 - r.randint(0, 20),
                         U64 - 8, r.randint(0, 30)])

    def isize(self):
        r = self.rnd
        if self.regime == "medium":
            return r.randint(0, 20)
        if self.regime == "large":
            return r.randint(0, 3000)
        if self.regime == "small":
            return r.randint(0, 12)
        return r.choice([0, 1, 8, 16, r.randint(0, 12), 1 << 63, U64])

    def off(self):
        r = self.rnd
        if self.regime == "medium":
            return r.randint(0, 60)
        if self.regime == "large":
            return r.randint(0, 3000)
        if self.regime == "small":
            return r.randint(0, 14)
        return r.choice([0, 1, r.randint(0, 14), r.randint(0, 14),
                         U64, U64 - 1, 1 << 63])

    def bsize(self):
        r = self.rnd
        if self.regime == "medium":
            return r.choice([0, 1, 2, 3, r.randint(0, 8)])
        if self.regime == "large":
            return r.choice([0, 1, 2, 4, r.randint(0, 40), r.randint(0, 400)])
        if self.regime == "small":
            return r.choice([0, 0, 1, 2, 3, r.randint(0, 6)])
        return r.choice([0, 1, 2, r.randint(0, 6), U64, 1 << 63])

    # derived
    def ivs_of_sec(self, s):
        return [i for i, v in self.ivs.items() if v["sec"] == s]

    def secs_of_mod(self, m):
        return [s for s, v in self.secs.items() if v["mod"] == m]

    def mods_of_ir(self, ir):
        return [m for m, v in self.mods.items() if v["ir"] == ir]

    def blks_of_iv(self, i):
        return [b for b, v in self.blks.items() if v["iv"] == i]

    def ivs_of_scope(self, scope):
        k = kd(scope)
        if k == "S":
            return self.ivs_of_sec(scope)
        if k == "M":
            return [i for s in self.secs_of_mod(scope)
                    for i in self.ivs_of_sec(s)]
        return [i for m in self.mods_of_ir(scope)
                for s in self.secs_of_mod(m) for i in self.ivs_of_sec(s)]

    def sec_extent(self, s):
        ivs = [self.ivs[i] for i in self.ivs_of_sec(s)]
        if not ivs or any(v["addr"] is None for v in ivs):
            return None, None
        lo = min(v["addr"] for v in ivs)
        hi = max(v["addr"] + v["size"] for v in ivs)
        return lo, hi - lo

    # ---- edit generation (model only) -----------------------------------
    def initial(self):
        """Generator: yields ops; the caller applies each to the real
        objects and then to the model before asking for the next."""
        r = self.rnd
        for _ in range(r.choice([1, 1, 2])):
            yield {"op": "new_ir", "id": self.nid("IR")}
        for _ in range(2):
            yield {"op": "new_mod", "id": self.nid("M"),
                   "ir": r.choice(self.irs)}
        for _ in range(3):
            yield {"op": "new_sec", "id": self.nid("S"),
                   "mod": r.choice(list(self.mods))}
        large = self.regime == "large"
        if self.regime == "medium" and r.random() < 0.45:
            # one crowded module: tens of sections, each with a few small
            # intervals that touch, overlap or are empty
            mod = r.choice(list(self.mods))
            for _ in range(r.randint(17, 40)):
                sid = self.nid("S")
                yield {"op": "new_sec", "id": sid, "mod": mod}
                base = r.randint(0, 60)
                for _ in range(r.randint(1, 3)):
                    o = self.gen_new_iv()
                    o["sec"] = sid
                    o["addr"] = None if r.random() < 0.05 else base
                    o["size"] = r.choice([0, 0, 1, 2, 4, 8])
                    o.pop("nbytes", None)
                    base += r.choice([0, o["size"], o["size"], 1])
                    yield o
            for _ in range(r.randint(3, 20)):
                yield self.gen_new_blk()
            return
        if self.regime == "medium":
            # one crowded section and one crowded interval (tens of members)
            sec = r.choice(list(self.secs))
            # (now and then beyond 64 / 128 members, where size-dependent
            # paths of an index usually switch)
            for _ in range(r.choice([r.randint(26, 60), r.randint(26, 60),
                                     r.randint(61, 150)])):
                o = self.gen_new_iv()
                if r.random() < 0.85:
                    o["sec"] = sec
                    if o["addr"] is None and r.random() < 0.8:
                        o["addr"] = r.randint(0, 120)
                yield o
            iv = r.choice(list(self.ivs))
            for _ in range(r.choice([r.randint(34, 90), r.randint(34, 90),
                                     r.randint(91, 170)])):
                o = self.gen_new_blk()
                if r.random() < 0.85:
                    o["iv"] = iv
                yield o
            return
        for _ in range(r.randint(3, 12) if large else r.randint(1, 4)):
            yield self.gen_new_iv()
        for _ in range(r.randint(100, 900) if large else r.randint(1, 6)):
            yield self.gen_new_blk()

    def gen_new_iv(self):
        r = self.rnd
        a, sz = self.addr(), self.isize()
        if self.ivs and r.random() < 0.3:
            # coincide exactly with an existing interval
            twin = self.ivs[r.choice(list(self.ivs))]
            a, sz = twin["addr"], twin["size"]
        op = {"op": "new_iv", "id": self.nid("I"), "addr": a,
              "size": sz,
              "sec": r.choice(list(self.secs) + [None]),
              "via": r.choice(["ctor", "attr", "add"])}
        if sz <= 4096 and r.random() < 0.3:
            # an interval that stores bytes (none of the lookups cares, but
            # a size assignment below their count also cuts them)
            op["nbytes"] = r.choice([sz, r.randint(0, sz)])
        return op

    def gen_new_blk(self):
        r = self.rnd
        o, sz = self.off(), self.bsize()
        if self.blks and r.random() < 0.3:
            twin = self.blks[r.choice(list(self.blks))]
            o, sz = twin["off"], twin["size"]
        return {"op": "new_blk", "id": self.nid("B"),
                "kind": r.choice(["code", "data"]), "off": o,
                "size": sz,
                "iv": r.choice(list(self.ivs) + [None]) if self.ivs else None,
                "via": r.choice(["ctor", "attr", "add"])}

    def gen_edit(self, allow_pop=False, focus=None):
        r = self.rnd
        kinds = ["blk_off", "blk_off", "blk_size", "blk_size", "iv_addr",
                 "iv_addr", "iv_size", "mv_blk", "mv_blk", "mv_iv", "mv_iv",
                 "rm_blk", "rm_iv", "readd_blk", "new_blk", "new_iv",
                 "mv_sec", "mv_mod", "ex_set", "ex_set", "ex_del",
                 "ex_update", "ex_clear", "ex_assign", "ex_setdefault",
                 "blk_update", "save_load"]
        if focus == "C13":
            kinds += ["ex_set", "ex_set", "ex_del", "ex_update", "ex_assign",
                      "ex_assign_pairs", "ex_assign_other", "ex_pop",
                      "ex_setdefault", "iv_addr", "iv_addr", "mv_iv"] * 2
        if focus == "C06":
            kinds += ["iv_addr", "iv_addr", "iv_size", "mv_iv", "rm_iv",
                      "new_iv", "mv_sec"] * 3
        if allow_pop:
            kinds += ["ex_popitem", "blk_pop"]
        for _ in range(20):
            k = r.choice(kinds)
            B, I = list(self.blks), list(self.ivs)
            if k == "blk_off" and B:
                return {"op": k, "id": r.choice(B), "off": self.off()}
            if k == "blk_size" and B:
                return {"op": k, "id": r.choice(B), "size": self.bsize()}
            if k == "iv_addr" and I:
                a = self.addr()
                if r.random() < 0.25:
                    a = self.ivs[r.choice(I)]["addr"]
                return {"op": k, "id": r.choice(I), "addr": a}
            if k == "iv_size" and I:
                z = self.isize()
                if r.random() < 0.25:
                    z = self.ivs[r.choice(I)]["size"]
                i = r.choice(I)
                stored = [x for x in I if self.ivs[x].get("nbytes")]
                if stored and r.random() < 0.3:
                    # cut an interval below the bytes it stores
                    i = r.choice(stored)
                    z = r.randint(0, self.ivs[i]["nbytes"] - 1)
                return {"op": k, "id": i, "size": z}
            if k == "mv_blk" and B and I:
                return {"op": k, "id": r.choice(B),
                        "iv": r.choice(I + [None]),
                        "via": r.choice(["attr", "add", "update"])}
            if k == "mv_iv" and I:
                return {"op": k, "id": r.choice(I),
                        "sec": r.choice(list(self.secs) + [None]),
                        "via": r.choice(["attr", "add", "update"])}
            if k == "rm_blk" and B:
                b = r.choice(B)
                if self.blks[b]["iv"]:
                    return {"op": k, "id": b,
                            "via": r.choice(["discard", "remove", "isub"])}
            if k == "rm_iv" and I:
                i = r.choice(I)
                if self.ivs[i]["sec"]:
                    return {"op": k, "id": i,
                            "via": r.choice(["discard", "remove"])}
            if k == "readd_blk" and B and I:
                b = r.choice(B)
                if self.blks[b]["iv"] is None:
                    return {"op": "mv_blk", "id": b, "iv": r.choice(I),
                            "via": "add"}
            if k == "new_blk" and len(B) < {"large": 1200, "medium": 140
                                            }.get(self.regime, 16):
                return self.gen_new_blk()
            if k == "new_iv" and len(I) < {"large": 40, "medium": 70
                                           }.get(self.regime, 8):
                return self.gen_new_iv()
            if k == "mv_sec":
                return {"op": k, "id": r.choice(list(self.secs)),
                        "mod": r.choice(list(self.mods) + [None])}
            if k == "mv_mod" and len(self.irs) > 1:
                return {"op": k, "id": r.choice(list(self.mods)),
                        "ir": r.choice(self.irs + [None])}
            if k == "blk_update" and B and I:
                bs = r.sample(B, min(len(B), r.randint(1, 3)))
                op = {"op": k, "iv": r.choice(I), "ids": bs}
                if r.random() < 0.15:
                    # one element of the batch cannot be a member: the call
                    # is refused, wholly or (as a built-in's update may be)
                    # after the elements before it; either way no lookup
                    # may report a block that is not a member afterwards
                    op["junk"] = r.choice(["None", "int", "proxy"])
                return op
            if k.startswith("ex_") and I:
                i = r.choice(I)
                key = r.randint(0, 14) if self.regime == "small" or \
                    r.random() < 0.6 else r.choice([U64, 1 << 63, U64 - 1])
                ex = self.exprs[i]
                if k == "ex_set":
                    return {"op": k, "iv": i, "key": key,
                            "e": self.new_expr()}
                if k == "ex_del" and ex:
                    return {"op": k, "iv": i, "key": r.choice(sorted(ex))}
                if k == "ex_pop" and ex:
                    return {"op": k, "iv": i, "key": r.choice(sorted(ex))}
                if k == "ex_setdefault":
                    return {"op": k, "iv": i, "key": key,
                            "e": self.new_expr()}
                if k == "ex_update":
                    return {"op": k, "iv": i, "pairs": [
                        [r.randint(0, 14), self.new_expr()]
                        for _ in range(r.randint(0, 3))],
                        "as": r.choice(["dict", "pairs"])}
                if k == "ex_clear":
                    return {"op": k, "iv": i}
                if k in ("ex_assign", "ex_assign_pairs"):
                    return {"op": k, "iv": i, "pairs": [
                        [r.randint(0, 14), self.new_expr()]
                        for _ in range(r.randint(0, 4))]}
                if k == "ex_assign_other" and len(I) > 1:
                    return {"op": k, "iv": i,
                            "src": r.choice([x for x in I if x != i])}
                if k == "ex_popitem" and ex:
                    return {"op": k, "iv": i}
            if k == "blk_pop" and I:
                i = r.choice(I)
                if self.blks_of_iv(i):
                    return {"op": k, "iv": i}
            if k == "save_load" and r.random() < 0.3:
                return {"op": k, "ir": r.choice(self.irs)}
        return {"op": "noop"}

    def gen_burst(self):
        """Several index-affecting edits aimed at ONE container, then
        members added to / moved into it: drives the number of pending
        index updates below, to and beyond the container's size."""
        r = self.rnd
        ops = []
        if r.random() < 0.3:
            return self.gen_toggle()
        if r.random() < 0.1 and self.secs:
            # a section goes dark: every interval of it loses its address
            # (its index is then built but empty at the next lookup)
            cands = [s for s in self.secs
                     if 1 <= len(self.ivs_of_sec(s)) <= 8]
            if cands:
                s = r.choice(cands)
                return [{"op": "iv_addr", "id": i, "addr": None}
                        for i in self.ivs_of_sec(s)
                        if self.ivs[i]["addr"] is not None]
        if r.random() < 0.5 and self.secs:
            s = r.choice(list(self.secs))
            ivs = self.ivs_of_sec(s)
            for _ in range(r.randint(1, 6)):
                if not ivs:
                    break
                i = r.choice(ivs)
                if r.random() < 0.7:
                    a = self.addr()
                    ops.append({"op": "iv_addr", "id": i,
                                "addr": a if a is not None or
                                r.random() < 0.3 else r.randint(0, 30)})
                else:
                    ops.append({"op": "iv_size", "id": i,
                                "size": self.isize()})
            for _ in range(r.randint(0, 3)):
                others = [i for i in self.ivs if i not in ivs]
                if others and r.random() < 0.5:
                    ops.append({"op": "mv_iv", "id": r.choice(others),
                                "sec": s,
                                "via": r.choice(["attr", "add", "update"])})
                elif len(self.ivs) + sum(
                        1 for o in ops if o["op"] == "new_iv") < 10:
                    o = self.gen_new_iv()
                    o["sec"] = s
                    ops.append(o)
            if ivs and r.random() < 0.3:
                ops.append({"op": "rm_iv", "id": r.choice(ivs),
                            "via": "discard"})
        elif self.ivs:
            iv = r.choice(list(self.ivs))
            bs = self.blks_of_iv(iv)
            for _ in range(r.randint(1, 6)):
                if not bs:
                    break
                b = r.choice(bs)
                if r.random() < 0.6:
                    ops.append({"op": "blk_off", "id": b, "off": self.off()})
                else:
                    ops.append({"op": "blk_size", "id": b,
                                "size": self.bsize()})
            for _ in range(r.randint(0, 3)):
                others = [b for b in self.blks if b not in bs]
                if others and r.random() < 0.5:
                    ops.append({"op": "mv_blk", "id": r.choice(others),
                                "iv": iv,
                                "via": r.choice(["attr", "add", "update"])})
                elif len(self.blks) + sum(
                        1 for o in ops if o["op"] == "new_blk") < 20:
                    o = self.gen_new_blk()
                    o["iv"] = iv
                    ops.append(o)
        # drop ops made inapplicable by earlier ones of the same burst
        out, gone = [], set()
        for o in ops:
            if o["op"] == "rm_iv":
                if o["id"] in gone:
                    continue
                gone.add(o["id"])
            out.append(o)
        return out

    def gen_toggle(self):
        """The same edit repeated: an attribute alternating between two
        values, or a member removed, re-added and removed again - queues
        identical index updates several times between two lookups."""
        r = self.rnd
        ops = []
        n = r.randint(2, 5)
        k = r.randrange(4)
        attached = [b for b, v in self.blks.items() if v["iv"]]
        placed = [i for i, v in self.ivs.items() if v["sec"]]
        if k == 0 and attached:
            b = r.choice(attached)
            f = r.choice(["off", "size"])
            vals = [self.blks[b][f], self.off() if f == "off"
                    else self.bsize()]
            for j in range(n):
                ops.append({"op": "blk_" + f, "id": b, f: vals[(j + 1) % 2]})
        elif k == 1 and placed:
            i = r.choice(placed)
            dark = [x for x in placed if all(
                self.ivs[y]["addr"] is None
                for y in self.ivs_of_sec(self.ivs[x]["sec"]))]
            if dark and r.random() < 0.5:
                i = r.choice(dark)  # an interval of a section gone dark
            f = r.choice(["addr", "addr", "size"])
            cur = self.ivs[i][f]
            other = self.addr() if f == "addr" else self.isize()
            if f == "addr" and other is None and cur is None:
                other = r.randint(0, 30)
            vals = [cur, other]
            for j in range(n):
                ops.append({"op": "iv_" + f, "id": i, f: vals[(j + 1) % 2]})
        elif k == 2 and attached:
            b = r.choice(attached)
            iv = self.blks[b]["iv"]
            for j in range(n):
                if j % 2 == 0:
                    ops.append({"op": "rm_blk", "id": b, "via": "discard"})
                else:
                    ops.append({"op": "mv_blk", "id": b, "iv": iv,
                                "via": r.choice(["attr", "add", "update"])})
        elif placed:
            i = r.choice(placed)
            s = self.ivs[i]["sec"]
            for j in range(n):
                if j % 2 == 0:
                    ops.append({"op": "rm_iv", "id": i, "via": "discard"})
                else:
                    ops.append({"op": "mv_iv", "id": i, "sec": s,
                                "via": r.choice(["attr", "add", "update"])})
        return ops

    def new_expr(self):
        self.nexpr += 1
        return "e%d" % self.nexpr

    # ---- applying an op to the model -------------------------------------
    def apply(self, op, observed=None):
        k = op["op"]
        if k == "new_ir":
            self.irs.append(op["id"])
        elif k == "new_mod":
            self.mods[op["id"]] = {"ir": op["ir"]}
        elif k == "new_sec":
            self.secs[op["id"]] = {"mod": op["mod"]}
        elif k == "new_iv":
            self.ivs[op["id"]] = {"addr": op["addr"], "size": op["size"],
                                  "sec": op["sec"],
                                  "nbytes": op.get("nbytes", 0)}
            self.exprs[op["id"]] = {}
        elif k == "new_blk":
            self.blks[op["id"]] = {"kind": op["kind"], "off": op["off"],
                                   "size": op["size"], "iv": op["iv"]}
        elif k == "blk_off":
            self.blks[op["id"]]["off"] = op["off"]
        elif k == "blk_size":
            self.blks[op["id"]]["size"] = op["size"]
        elif k == "iv_addr":
            self.ivs[op["id"]]["addr"] = op["addr"]
        elif k == "iv_size":
            self.ivs[op["id"]]["size"] = op["size"]
            self.ivs[op["id"]]["nbytes"] = min(
                self.ivs[op["id"]].get("nbytes", 0), op["size"])
        elif k == "mv_blk":
            self.blks[op["id"]]["iv"] = op["iv"]
        elif k == "mv_iv":
            self.ivs[op["id"]]["sec"] = op["sec"]
        elif k == "rm_blk":
            self.blks[op["id"]]["iv"] = None
        elif k == "rm_iv":
            self.ivs[op["id"]]["sec"] = None
        elif k == "mv_sec":
            self.secs[op["id"]]["mod"] = op["mod"]
        elif k == "mv_mod":
            self.mods[op["id"]]["ir"] = op["ir"]
        elif k == "blk_update":
            for b in op["ids"]:
                if op.get("junk"):
                    # refused batch: the model follows what the blocks
                    # themselves say (C04 judges whether that is coherent)
                    self.blks[b]["iv"] = observed[b]
                else:
                    self.blks[b]["iv"] = op["iv"]
        elif k == "blk_pop":
            self.blks[observed]["iv"] = None
        elif k == "ex_set":
            self.exprs[op["iv"]][op["key"]] = op["e"]
        elif k in ("ex_del", "ex_pop"):
            del self.exprs[op["iv"]][op["key"]]
        elif k == "ex_setdefault":
            self.exprs[op["iv"]].setdefault(op["key"], op["e"])
        elif k == "ex_update":
            self.exprs[op["iv"]].update({a: b for a, b in op["pairs"]})
        elif k == "ex_clear":
            self.exprs[op["iv"]].clear()
        elif k in ("ex_assign", "ex_assign_pairs"):
            self.exprs[op["iv"]] = {a: b for a, b in op["pairs"]}
        elif k == "ex_assign_other":
            self.exprs[op["iv"]] = dict(self.exprs[op["src"]])
        elif k == "ex_popitem":
            del self.exprs[op["iv"]][observed]

    # ---- scan oracles ------------------------------------------------------
    def blocks_expect(self, scope, q, how, kind=None, by_offset=False):
        """(must, may) lists of block ids."""
        lo, hi = hull(q)
        mem = members(q)
        must, may = [], []
        if kd(scope) == "I":
            ivs = [scope]
        else:
            ivs = self.ivs_of_scope(scope)
        for i in ivs:
            iv = self.ivs[i]
            A = 0 if by_offset else iv["addr"]
            if A is None:
                continue
            for b in self.blks_of_iv(i):
                bk = self.blks[b]
                if kind and bk["kind"] != kind:
                    continue
                s, e = A + bk["off"], A + bk["off"] + bk["size"]
                if kd(scope) == "I":
                    elo, ehi = s, e  # no extent restriction at interval scope
                else:
                    elo, ehi = max(s, A), min(e, A + iv["size"])
                if how == "on":
                    if bk["size"] > 0 and max(lo, s) < min(hi, e):
                        may.append(b)
                        if any_member_in(q, elo, ehi):
                            must.append(b)
                else:
                    if s in mem:
                        may.append(b)
                        if kd(scope) == "I" or A <= s < A + iv["size"]:
                            must.append(b)
        return must, may

    def intervals_expect(self, scope, q, how):
        lo, hi = hull(q)
        mem = members(q)
        must, may = [], []
        for i in self.ivs_of_scope(scope):
            iv = self.ivs[i]
            A = iv["addr"]
            if A is None:
                continue
            if how == "on":
                if iv["size"] > 0 and max(lo, A) < min(hi, A + iv["size"]):
                    may.append(i)
                    if any_member_in(q, A, A + iv["size"]):
                        must.append(i)
            elif A in mem:
                may.append(i)
                must.append(i)
        return must, may

    def sections_expect(self, scope, q, how):
        lo, hi = hull(q)
        mem = members(q)
        secs = self.secs_of_mod(scope) if kd(scope) == "M" else \
            [s for m in self.mods_of_ir(scope) for s in self.secs_of_mod(m)]
        must, may = [], []
        for s in secs:
            a, sz = self.sec_extent(s)
            if a is None:
                continue
            if how == "on":
                if sz > 0 and max(lo, a) < min(hi, a + sz):
                    may.append(s)
                    if any_member_in(q, a, a + sz):
                        must.append(s)
            elif a in mem:
                may.append(s)
                must.append(s)
        return must, may

    def exprs_expect(self, scope, q, by_offset=False):
        """interval scope: exact ordered list [(iv, off, e)];
        wider: (must, may) multisets."""
        mem = members(q)
        if kd(scope) == "I":
            iv = self.ivs[scope]
            A = 0 if by_offset else iv["addr"]
            if A is None:
                return []
            return [(scope, o, e) for o, e in sorted(self.exprs[scope].items())
                    if A + o in mem]
        must, may = [], []
        for i in self.ivs_of_scope(scope):
            iv = self.ivs[i]
            A = iv["addr"]
            if A is None:
                continue
            for o, e in sorted(self.exprs[i].items()):
                if A + o in mem:
                    may.append((i, o, e))
                    if o < iv["size"]:
                        must.append((i, o, e))
        return must, may

    def state_key(self):
        """Canonical layout (ids erased) for counting distinct states."""
        out = []
        for i, iv in self.ivs.items():
            out.append((iv["addr"], iv["size"], iv["sec"] is not None,
                        tuple(sorted((b["off"], b["size"], b["kind"])
                                     for b in (self.blks[x] for x in
                                               self.blks_of_iv(i)))),
                        tuple(sorted(self.exprs[i]))))
        return tuple(sorted(out, key=repr))

    # ---- queries ----------------------------------------------------------
    def critical(self):
        c = set()
        for i, iv in self.ivs.items():
            A = iv["addr"]
            if A is not None:
                c |= {A, A + iv["size"]}
            for b in self.blks_of_iv(i):
                bk = self.blks[b]
                c |= {bk["off"], bk["off"] + bk["size"]}
                if A is not None:
                    c |= {A + bk["off"], A + bk["off"] + bk["size"]}
            for o in self.exprs[i]:
                c.add(o)
                if A is not None:
                    c.add(A + o)
        out = set()
        for x in c:
            out |= {x - 1, x, x + 1}
        return sorted(out)

    def gen_queries(self, rnd, n, complete_points=False):
        crit = self.critical() or [0, 1]
        qs = []
        if complete_points and self.regime in ("small", "medium"):
            top = min(max(crit) + 2, 80)
            qs += list(range(-1, top))
        for _ in range(n):
            k = rnd.random()
            if k < 0.3:
                qs.append(rnd.choice(crit))
            elif k < 0.85:
                a, b = rnd.choice(crit), rnd.choice(crit)
                if a > b and rnd.random() < 0.8:
                    a, b = b, a
                step = rnd.choice([1, 1, 1, 1, 2, 3, 7])
                qs.append(range(a, b + rnd.choice([0, 0, 1]), step))
            elif k < 0.9:
                a = rnd.choice(crit)
                qs.append(range(a, a))
            elif k < 0.95:
                qs.append(range(min(crit) - 2, max(crit) + 3,
                                rnd.choice([1, 1, 2, 5])))
            else:
                a = rnd.choice(crit)
                qs.append(range(a, a + rnd.randint(1, 3)))
        # a range is followed, now and then, by another one with the same
        # members and another stop (equal as ranges go, yet 'on' spans a
        # different stretch)
        out = []
        for q in qs:
            out.append(q)
            if isinstance(q, range) and q and rnd.random() < 0.4:
                last = q[-1]
                stops = {last + 1, last + q.step} - {q.stop}
                if q.step == 1:
                    stops = set()
                    if q.start + 1 >= q.stop:  # range(a, a+1) == range(a, b, big)
                        out.append(range(q.start, q.start + rnd.choice(
                            [7, 40]), 50))
                for st in sorted(stops)[:1]:
                    out.append(range(q.start, st, q.step))
        return out


# ---------------------------------------------------------------------------
class Real:
    """Applies ops to real gtirb objects; runs probes."""

    def __init__(self, gt, ctx, model_for_uuid_rnd):
        self.gt = gt
        self.ctx = ctx
        self.obj = {}
        self.expr_obj = {}
        self.expr_lab = {}
        self.sym = gt.Symbol("x")
        self.sym_mod = None
        self.urnd = model_for_uuid_rnd
        self.pending_blk = collections.Counter()  # iv id -> events
        self.pending_iv = collections.Counter()  # sec id -> events
        self.lookups_done = 0

    def of(self, o):
        for k, v in self.obj.items():
            if v is o:
                return k
        return "?"

    def lab(self, e):
        return self.expr_lab.get(id(e), "?")

    def expr(self, label):
        if label not in self.expr_obj:
            gt = self.gt
            n = int(label[1:])
            e = gt.SymAddrConst(n, self.sym) if n % 2 else \
                gt.SymAddrAddr(1, n, self.sym, self.sym)
            self.expr_obj[label] = e
            self.expr_lab[id(e)] = label
        return self.expr_obj[label]

    def uuid(self):
        import uuid
        return uuid.UUID(int=self.urnd.getrandbits(128))

    # pending-event estimate (harness side; the authoritative path
    # classification comes from the diagnostic hook)
    def ev_blk(self, blk_id, model, n=1):
        iv = model.blks[blk_id]["iv"]
        if iv:
            self.pending_blk[iv] += n

    def ev_iv(self, iv_id, model, n=1):
        s = model.ivs[iv_id]["sec"]
        if s and model.ivs[iv_id]["addr"] is not None:
            self.pending_iv[s] += n

    def apply(self, op, model):
        """Apply op to the real objects (model is the state *before* the
        op).  Returns an observed value for implementation-chosen results."""
        gt, O = self.gt, self.obj
        k = op["op"]
        if k == "noop":
            return
        if op.get("uuid_of"):
            # terminal step only: the UUID of another live node
            u = O[op["uuid_of"]].uuid
            self.uuid = lambda u=u: u
        if k == "new_ir":
            O[op["id"]] = gt.IR(uuid=self.uuid())
        elif k == "new_mod":
            O[op["id"]] = gt.Module(name=op["id"], uuid=self.uuid(),
                                    ir=O[op["ir"]])
            if self.sym_mod is None:
                self.sym_mod = op["id"]
                self.sym.module = O[op["id"]]
        elif k == "new_sec":
            O[op["id"]] = gt.Section(name=op["id"], uuid=self.uuid(),
                                     module=O[op["mod"]])
        elif k == "new_iv":
            sec = O[op["sec"]] if op["sec"] else None
            kw = {}
            if op.get("nbytes"):
                kw["contents"] = bytes(op["nbytes"])
                self.ctx.count("intervals_with_stored_bytes")
            if op["via"] == "ctor" or sec is None:
                o = gt.ByteInterval(address=op["addr"], size=op["size"],
                                    uuid=self.uuid(), section=sec, **kw)
            else:
                o = gt.ByteInterval(address=op["addr"], size=op["size"],
                                    uuid=self.uuid(), **kw)
                if op["via"] == "attr":
                    o.section = sec
                else:
                    sec.byte_intervals.add(o)
            O[op["id"]] = o
            if op["sec"] and op["addr"] is not None:
                self.pending_iv[op["sec"]] += 1
        elif k == "new_blk":
            iv = O[op["iv"]] if op["iv"] else None
            cls = gt.CodeBlock if op["kind"] == "code" else gt.DataBlock
            if op["via"] == "ctor" or iv is None:
                o = cls(offset=op["off"], size=op["size"], uuid=self.uuid(),
                        byte_interval=iv)
            else:
                o = cls(offset=op["off"], size=op["size"], uuid=self.uuid())
                if op["via"] == "attr":
                    o.byte_interval = iv
                else:
                    iv.blocks.add(o)
            O[op["id"]] = o
            if op["iv"]:
                self.pending_blk[op["iv"]] += 1
        elif k == "blk_off":
            self.ev_blk(op["id"], model, 2)
            O[op["id"]].offset = op["off"]
        elif k == "blk_size":
            self.ev_blk(op["id"], model, 2)
            O[op["id"]].size = op["size"]
        elif k == "iv_addr":
            s = model.ivs[op["id"]]["sec"]
            if s:
                self.pending_iv[s] += (model.ivs[op["id"]]["addr"]
                                       is not None) + (op["addr"] is not None)
            O[op["id"]].address = op["addr"]
        elif k == "iv_size":
            self.ev_iv(op["id"], model, 2)
            O[op["id"]].size = op["size"]
        elif k == "mv_blk":
            self.ev_blk(op["id"], model, 1)
            b = O[op["id"]]
            if op["iv"] is None:
                b.byte_interval = None
            else:
                self.pending_blk[op["iv"]] += 1
                if op["via"] == "attr":
                    b.byte_interval = O[op["iv"]]
                elif op["via"] == "add":
                    O[op["iv"]].blocks.add(b)
                else:
                    O[op["iv"]].blocks.update([b])
        elif k == "mv_iv":
            self.ev_iv(op["id"], model, 1)
            i = O[op["id"]]
            if op["sec"] is None:
                i.section = None
            else:
                if model.ivs[op["id"]]["addr"] is not None:
                    self.pending_iv[op["sec"]] += 1
                if op["via"] == "attr":
                    i.section = O[op["sec"]]
                elif op["via"] == "add":
                    O[op["sec"]].byte_intervals.add(i)
                else:
                    O[op["sec"]].byte_intervals.update([i])
        elif k == "rm_blk":
            self.ev_blk(op["id"], model, 1)
            b = O[op["id"]]
            S = b.byte_interval.blocks
            if op["via"] == "discard":
                S.discard(b)
            elif op["via"] == "remove":
                S.remove(b)
            else:
                S -= {b}
        elif k == "rm_iv":
            self.ev_iv(op["id"], model, 1)
            i = O[op["id"]]
            if op["via"] == "discard":
                i.section.byte_intervals.discard(i)
            else:
                i.section.byte_intervals.remove(i)
        elif k == "mv_sec":
            O[op["id"]].module = O[op["mod"]] if op["mod"] else None
        elif k == "mv_mod":
            O[op["id"]].ir = O[op["ir"]] if op["ir"] else None
        elif k == "blk_update":
            for b in op["ids"]:
                self.ev_blk(b, model, 1)
                self.pending_blk[op["iv"]] += 1
            if op.get("junk"):
                junk = {"None": None, "int": 5,
                        "proxy": gt.ProxyBlock()}[op["junk"]]
                args = [O[b] for b in op["ids"]] + [junk]
                self.urnd.shuffle(args)
                try:
                    O[op["iv"]].blocks.update(args)
                    self.ctx.count("refused_batch:accepted")
                except Exception as e:
                    self.ctx.count("refused_batch:refused")
                idof = {id(v): kk for kk, v in O.items()}
                out = {}
                for b in op["ids"]:
                    par = O[b].byte_interval
                    out[b] = idof.get(id(par)) if par is not None and \
                        O[b] in par.blocks else None
                return out
            O[op["iv"]].blocks.update([O[b] for b in op["ids"]])
        elif k == "blk_pop":
            b = O[op["iv"]].blocks.pop()
            return self.of(b)
        elif k == "ex_set":
            O[op["iv"]].symbolic_expressions[op["key"]] = self.expr(op["e"])
        elif k == "ex_del":
            del O[op["iv"]].symbolic_expressions[op["key"]]
        elif k == "ex_pop":
            O[op["iv"]].symbolic_expressions.pop(op["key"])
        elif k == "ex_setdefault":
            O[op["iv"]].symbolic_expressions.setdefault(
                op["key"], self.expr(op["e"]))
        elif k == "ex_update":
            pairs = [(a, self.expr(b)) for a, b in op["pairs"]]
            O[op["iv"]].symbolic_expressions.update(
                dict(pairs) if op["as"] == "dict" else pairs)
        elif k == "ex_clear":
            O[op["iv"]].symbolic_expressions.clear()
        elif k == "ex_assign":
            O[op["iv"]].symbolic_expressions = {
                a: self.expr(b) for a, b in op["pairs"]}
        elif k == "ex_assign_pairs":
            O[op["iv"]].symbolic_expressions = [
                (a, self.expr(b)) for a, b in op["pairs"]]
        elif k == "ex_assign_other":
            O[op["iv"]].symbolic_expressions = \
                O[op["src"]].symbolic_expressions
        elif k == "ex_popitem":
            key, v = O[op["iv"]].symbolic_expressions.popitem()
            return key
        elif k == "save_load":
            return self.save_load(op, model)

    def save_load(self, op, model):
        """Replace the IR's objects by the loaded ones (same logical ids)."""
        gt, O = self.gt, self.obj
        ir = O[op["ir"]]
        mods = model.mods_of_ir(op["ir"])
        # a file must be self-contained: every expression's symbol (all use
        # self.sym) has to live in the module of the expression's interval
        sm = self.sym_mod
        for m in mods:
            for s in model.secs_of_mod(m):
                for i in model.ivs_of_sec(s):
                    if model.exprs[i] and m != sm:
                        return "skipped"
        if sm not in mods and any(
                model.exprs[i] for m in mods for s in model.secs_of_mod(m)
                for i in model.ivs_of_sec(s)):
            return "skipped"
        raw = irio.save(ir)
        new = irio.load(gt, raw)
        by_uuid = {}
        from . import world
        for n in world.reachable(gt, new):
            by_uuid[n.uuid] = n
        for lid, o in list(O.items()):
            if o is ir or (isinstance(o, gt.Node) and o.uuid in by_uuid and
                           getattr(o, "ir", None) is ir):
                O[lid] = by_uuid[o.uuid]
        if self.sym.uuid in by_uuid and self.sym.ir is ir:
            self.sym = by_uuid[self.sym.uuid]
        self.expr_obj_reload(model)
        # fresh objects: indexes are built on first use
        for i in model.ivs:
            self.pending_blk[i] = 0
        for s in model.secs:
            self.pending_iv[s] = 0
        self.ctx.count("save_load_continue")
        return "loaded"

    def expr_obj_reload(self, model):
        for i, ex in model.exprs.items():
            o = self.obj[i]
            for off, lab in ex.items():
                try:
                    e = o.symbolic_expressions[off]
                except KeyError:
                    continue
                self.expr_obj[lab] = e
                self.expr_lab[id(e)] = lab


# ---------------------------------------------------------------------------
BLOCK_METHODS = [(k, how) for k in ("byte", "code", "data")
                 for how in ("on", "at")]


JUDGE = [True]


def sandwich(ctx, prop, tag, got_ids, must, may, q, scope, extra=None):
    if not JUDGE[0]:
        return
    ctx.count("oracle_comparisons")
    if must:
        ctx.count("nonempty_expectations")
    if must != may:
        ctx.count("sandwich_not_exact")
    c = collections.Counter(got_ids)
    if any(v > 1 for v in c.values()):
        raise Discrepancy(prop, "duplicate:" + tag,
                          "%s(%r) on %s returned an element twice: %s"
                          % (tag, q, scope, sorted(got_ids)), extra or {})
    g = set(got_ids)
    if not set(must) <= g:
        raise Discrepancy(prop, "missing:" + tag,
                          "%s(%r) on %s misses %s (returned %s)" % (
                              tag, q, scope, sorted(set(must) - g),
                              sorted(g)), extra or {})
    if not g <= set(may):
        raise Discrepancy(prop, "extra:" + tag,
                          "%s(%r) on %s returned %s which a scan does not "
                          "select (allowed: %s)" % (
                              tag, q, scope, sorted(g - set(may)),
                              sorted(may)), extra or {})


class IntSub(int):
    """An int that is not exactly an int."""


def probe(ctx, real, model, queries, want=("C05", "C06", "C13"),
          answers=None, judge=True):
    """Run every lookup for every query at every scope against the oracle.
    ``answers`` (list) collects canonical answers for replica comparison."""
    gt, O = real.gt, real.obj
    idof = {id(v): k for k, v in O.items()}
    JUDGE[0] = judge

    def ids(it):
        return [idof.get(id(x), "?unknown") for x in it]

    scopes = list(model.secs) + list(model.mods) + list(model.irs)
    for q in queries:
        real.lookups_done += 1
        # the same point handed over as an int subclass now and then (enum
        # members and bools are ints too)
        qa = q
        if type(q) is int and (real.lookups_done + q) % 9 == 0:
            qa = IntSub(q)
            ctx.count("queries_as_int_subclass")
        if "C05" in want:
            for i in model.ivs:
                o = O[i]
                for kind, how in BLOCK_METHODS:
                    kk = None if kind == "byte" else kind
                    for suffix, by_off in (("", False), ("_offset", True)):
                        name = "%s_blocks_%s%s" % (kind, how, suffix)
                        got = ids(getattr(o, name)(qa))
                        must, may = model.blocks_expect(i, q, how, kk,
                                                        by_off)
                        sandwich(ctx, "C05", "interval." + name, got, must,
                                 may, q, i)
                        if answers is not None:
                            answers.append((name, repr(q), i, sorted(got)))
                real.pending_blk[i] = 0
            for sc in scopes:
                o = O[sc]
                for kind, how in BLOCK_METHODS:
                    kk = None if kind == "byte" else kind
                    name = "%s_blocks_%s" % (kind, how)
                    got = ids(getattr(o, name)(qa))
                    must, may = model.blocks_expect(sc, q, how, kk)
                    sandwich(ctx, "C05", "%s.%s" % (
                        SCOPE_NAME[kd(sc)],
                        name), got, must, may, q, sc)
                    if answers is not None:
                        answers.append((name, repr(q), sc, sorted(got)))
        if "C06" in want:
            for sc in scopes:
                o = O[sc]
                for how in ("on", "at"):
                    name = "byte_intervals_" + how
                    got = ids(getattr(o, name)(qa))
                    must, may = model.intervals_expect(sc, q, how)
                    sandwich(ctx, "C06", "%s.%s" % (
                        SCOPE_NAME[kd(sc)],
                        name), got, must, may, q, sc)
                    if answers is not None:
                        answers.append((name, repr(q), sc, sorted(got)))
                    if kd(sc) != "S":
                        name = "sections_" + how
                        got = ids(getattr(o, name)(qa))
                        must, may = model.sections_expect(sc, q, how)
                        sandwich(ctx, "C06", "%s.%s" % (
                            SCOPE_NAME[kd(sc)], name), got,
                            must, may, q, sc)
                        if answers is not None:
                            answers.append((name, repr(q), sc, sorted(got)))
                if kd(sc) == "S":
                    real.pending_iv[sc] = 0
        if "C13" in want:
            for i in model.ivs:
                o = O[i]
                for suffix, by_off in (("", False), ("_offset", True)):
                    name = "symbolic_expressions_at" + suffix
                    got = [(idof.get(id(a), "?"), off, real.lab(e))
                           for a, off, e in getattr(o, name)(qa)]
                    wantl = model.exprs_expect(i, q, by_off)
                    if judge:
                        ctx.count("oracle_comparisons")
                    if wantl and judge:
                        ctx.count("nonempty_expectations")
                    if judge and got != wantl:
                        raise Discrepancy(
                            "C13", "interval.%s" % name,
                            "%s(%r) on %s gave %s, a scan of the stored "
                            "expressions gives (in offset order) %s"
                            % (name, q, i, got, wantl), {})
                    if answers is not None:
                        answers.append((name, repr(q), i, got))
            for sc in scopes:
                o = O[sc]
                got = [(idof.get(id(a), "?"), off, real.lab(e))
                       for a, off, e in o.symbolic_expressions_at(qa)]
                must, may = model.exprs_expect(sc, q)
                sandwich(ctx, "C13", "%s.symbolic_expressions_at" % (
                    SCOPE_NAME[kd(sc)]),
                    got, must, may, q, sc)
                if answers is not None:
                    answers.append(("symbolic_expressions_at", repr(q), sc,
                                    sorted(got)))


def check_extents(ctx, real, model, answers=None, judge=True):
    for s in model.secs:
        o = real.obj[s]
        want = model.sec_extent(s)
        got = (o.address, o.size)
        if answers is not None:
            answers.append(("Section.address/size", "", s, list(got)))
        if not judge:
            real.pending_iv[s] = 0
            continue
        ctx.count("oracle_comparisons")
        ivs = model.ivs_of_sec(s)
        klass = "empty" if not ivs else (
            "some-unaddressed" if want[0] is None else (
                "single" if len(ivs) == 1 else "all-addressed"))
        ctx.count("extent_class:" + klass)
        real.pending_iv[s] = 0
        if got != want:
            raise Discrepancy(
                "C06", "section-extent:" + klass,
                "Section %s (address, size) is %r, a scan of its intervals "
                "gives %r" % (s, got, want), {})


def check_store(ctx, real, model):
    """The mapping view equals the harness mirror (catches a store that
    silently drops or keeps an item)."""
    for i, ex in model.exprs.items():
        o = real.obj[i]
        got = [(k, real.lab(v)) for k, v in o.symbolic_expressions.items()]
        ctx.count("store_mirror_checks")
        if got != sorted(ex.items()):
            raise Discrepancy(
                "C13", "store-differs-from-mirror",
                "symbolic_expressions of %s holds %s, the mirror of the "
                "operations holds %s" % (i, got, sorted(ex.items())), {})


# ---------------------------------------------------------------------------
def install_lazy_hook(gt, ctx):
    """Diagnostic post-condition + path classification on
    LazyIntervalTree.get (evidence only; skipped if private names moved)."""
    try:
        from gtirb import lazyintervaltree as lit
        cls = lit.LazyIntervalTree
        orig = cls.get
        for a in ("_interval_index", "_interval_events", "_value_collection"):
            if a not in cls.__init__.__code__.co_names:
                raise AttributeError(a)
    except Exception as e:
        ctx.note("lazy-tree diagnostic hook not installed: %s" % e)
        return False

    def get(self):
        try:
            n, ev = len(self._value_collection), len(self._interval_events)
            first = self._interval_index is None
            kind = "blocks" if "Offset" in getattr(
                self._make_interval, "__name__", "").title() or \
                "offset" in getattr(self._make_interval, "__name__", "") \
                else "intervals"
            check = first or ev > 0
            if n > 0:
                path = "first-use" if first else (
                    "rebuild" if n <= ev else (
                        "replay" if ev > 0 else "cached-no-pending"))
                ctx.count("lazy:%s:path:%s" % (kind, path))
                if not first and ev > 0:
                    rel = "<" if ev < n else ("=" if ev == n else ">")
                    ctx.count("lazy:%s:pending%ssize" % (kind, rel))
        except Exception:
            check = True
        tree = orig(self)
        if not check:
            return tree
        try:
            want = set()
            for v in self._value_collection:
                iv = self._make_interval(v)
                if iv is not None:
                    want.add((iv.begin, iv.end, id(iv.data)))
            have = {(iv.begin, iv.end, id(iv.data)) for iv in tree}
            ctx.count("lazy:postcondition_checks")
            if have != want:
                ctx.count("lazy:postcondition_mismatch")
        except Exception:
            pass
        return tree

    cls.get = get
    return True


# ---------------------------------------------------------------------------
def run_history(ctx, case, gt, prop, nops, regime=None, focus=None,
                check_prob=0.35, nqueries=12, extents_every_step=True):
    """One replica, probes interleaved (C05 / C06 / C13)."""
    import random
    rnd = case.rnd
    regime = regime or rnd.choice(["small", "small", "small", "far"])
    if ctx.tier == "thorough" and rnd.random() < 0.01:
        regime = "large"  # hundreds of blocks: the trees at scale
        nqueries, check_prob = 3, 0.1
        nops = min(nops, 40)
    elif rnd.random() < 0.08:
        regime = "medium"  # tens of members in one container
        nqueries, check_prob = 4, 0.2
        nops = min(nops, 40)
    model = Model(rnd, regime)
    real = Real(gt, ctx, random.Random(case.seed_str + ":uuid"))
    want = {"C05": ("C05",), "C06": ("C06",), "C13": ("C13",)}[prop]
    ctx.count("regime:" + regime)
    # lookup schedule of this history: how often a check point is placed
    # (rare check points let index-affecting edits pile up between lookups)
    sched = rnd.choice(["dense", "dense", "sparse", "rare", "end-only"])
    check_prob = {"dense": check_prob, "sparse": 0.1, "rare": 0.03,
                  "end-only": 0.0}[sched]
    extents_every_step = extents_every_step and sched == "dense"
    store_every_step = sched in ("dense", "sparse")
    ctx.count("schedule:" + sched)

    def do(op):
        case.ops.append(op)
        ctx.count("op:" + op["op"])
        ctx.seen("op_kinds", op["op"] + ":" + str(op.get("via", "")))
        observed = real.apply(op, model)
        if observed == "skipped":
            ctx.count("save_load_skipped")
            return
        model.apply(op, observed)

    for op in model.initial():
        do(op)
    edits_since = collections.Counter()
    for step in range(nops):
        if rnd.random() < 0.12:
            batch = model.gen_burst()
            ctx.count("bursts")
        else:
            batch = [model.gen_edit(allow_pop=True, focus=focus)]
        for op in batch:
            if op["op"] == "rm_iv" and not model.ivs[op["id"]]["sec"]:
                continue
            if op["op"] == "rm_blk" and not model.blks[op["id"]]["iv"]:
                continue
            do(op)
            if op["op"] in ("blk_off", "blk_size", "iv_addr", "iv_size",
                            "mv_blk", "mv_iv"):
                edits_since[op["op"]] += 1
        if prop == "C06" and extents_every_step:
            check_extents(ctx, real, model)
        if prop == "C13" and store_every_step:
            check_store(ctx, real, model)
        if rnd.random() < check_prob:
            for k, v in edits_since.items():
                ctx.count("edit_then_lookup:" + k, v)
            edits_since.clear()
            qs = model.gen_queries(rnd, nqueries)
            case.ops.append({"op": "probe", "queries": [q_json(q)
                                                        for q in qs]})
            probe(ctx, real, model, qs, want)
            ctx.count("check_points")
            ctx.seen("states", model.state_key())
    if rnd.random() < 0.06 and model.secs and model.ivs:
        # last step of the history: an interval carrying the UUID of
        # another node is put into a section. The API's answer is its own
        # business (today it accepts; a stricter release may refuse), but
        # after a refusal the interval must not be found by any lookup, and
        # after acceptance it is a member like any other. Nothing follows
        # but the final lookups, because two live nodes with one UUID are
        # outside what C03 covers.
        if model.blks and rnd.random() < 0.4:
            op = model.gen_new_blk()
            op["iv"] = rnd.choice(list(model.ivs))
        else:
            op = model.gen_new_iv()
            op["sec"] = rnd.choice(list(model.secs))
        op["uuid_of"] = rnd.choice(list(model.ivs) + list(model.secs) +
                                   list(model.blks))
        case.ops.append(op)
        twin_uuid_attach(ctx, real, model, op)
    qs = model.gen_queries(rnd, nqueries * 2, complete_points=True)
    case.ops.append({"op": "probe", "queries": [q_json(q) for q in qs]})
    probe(ctx, real, model, qs, want)
    if prop == "C06":
        check_extents(ctx, real, model)
    if prop == "C13":
        check_store(ctx, real, model)
    ctx.count("check_points")
    ctx.count("history_ops", len(case.ops))
    ctx.seen("nontrivial", [o for o in case.ops if o["op"] != "probe"])


def twin_uuid_attach(ctx, real, model, op):
    if op["uuid_of"] not in real.obj:
        return
    try:
        real.apply(op, model)
        model.apply(op)
        ctx.count("terminal_twin_uuid_attach:accepted")
    except Exception as e:
        real.obj.pop(op["id"], None)
        ctx.count("terminal_twin_uuid_attach:refused")
        ctx.seen("terminal_twin_uuid_refusals", type(e).__name__)


# ---------------------------------------------------------------------------
def q_json(q):
    return q if isinstance(q, int) else [q.start, q.stop, q.step]


def q_obj(j):
    return j if isinstance(j, int) else range(j[0], j[1], j[2])


def applicable(model, op):
    """Can this recorded op run on the model as it is (after other ops of
    the history were removed by the shrinker)?"""
    k = op["op"]
    ok = lambda i, tab: i is None or i in tab
    if k in ("probe", "noop", "new_ir"):
        return True
    if k == "new_mod":
        return op["ir"] in model.irs
    if k == "new_sec":
        return op["mod"] in model.mods
    if k == "new_iv":
        return ok(op["sec"], model.secs)
    if k == "new_blk":
        return ok(op["iv"], model.ivs)
    if k in ("blk_off", "blk_size"):
        return op["id"] in model.blks
    if k in ("iv_addr", "iv_size"):
        return op["id"] in model.ivs
    if k == "mv_blk":
        return op["id"] in model.blks and ok(op["iv"], model.ivs)
    if k == "mv_iv":
        return op["id"] in model.ivs and ok(op["sec"], model.secs)
    if k == "rm_blk":
        return op["id"] in model.blks and model.blks[op["id"]]["iv"]
    if k == "rm_iv":
        return op["id"] in model.ivs and model.ivs[op["id"]]["sec"]
    if k == "mv_sec":
        return op["id"] in model.secs and ok(op["mod"], model.mods)
    if k == "mv_mod":
        return op["id"] in model.mods and ok(op["ir"], model.irs)
    if k == "blk_update":
        return op["iv"] in model.ivs and all(b in model.blks
                                             for b in op["ids"])
    if k in ("blk_pop", "ex_popitem", "save_load"):
        return False  # implementation-chosen / heavy: dropped when shrinking
    if k.startswith("ex_"):
        if op["iv"] not in model.ivs:
            return False
        if k in ("ex_del", "ex_pop"):
            return op["key"] in model.exprs[op["iv"]]
        if k == "ex_assign_other":
            return op["src"] in model.ivs
        return True
    return False


def replay_ops(ctx, gt, ops, prop, seed_str="replay"):
    """Execute a recorded history (edits and probes) as given; raises the
    Discrepancy it produces, returns None if it runs clean."""
    import random
    model = Model(random.Random(seed_str), "small")
    real = Real(gt, ctx, random.Random(seed_str + ":uuid"))
    want = {"C05": ("C05",), "C06": ("C06",), "C13": ("C13",)}[prop]
    for op in ops:
        if not applicable(model, op):
            continue
        if op["op"] == "probe":
            if prop == "C06":
                check_extents(ctx, real, model)
            probe(ctx, real, model, [q_obj(j) for j in op["queries"]], want)
            continue
        if op.get("uuid_of"):
            twin_uuid_attach(ctx, real, model, op)
            continue
        observed = real.apply(op, model)
        if observed == "skipped":
            continue
        model.apply(op, observed)
        if prop == "C13":
            check_store(ctx, real, model)
    return None


def shrink(ctx, gt, ops, prop, mechanism, cpu_s=20.0):
    """Delta debugging on the recorded history: drop chunks of operations
    (and queries of the last probe) while the same mechanism still fires."""
    import time

    def fails(cand):
        try:
            replay_ops(ctx, gt, cand, prop)
        except Discrepancy as d:
            return d.mechanism == mechanism
        except Exception:
            return False
        return False

    t0 = time.process_time()
    if not fails(ops):
        return None  # does not reproduce from the recorded ops alone
    cur = list(ops)
    n = 2
    while len(cur) >= 2 and time.process_time() - t0 < cpu_s:
        chunk = max(1, len(cur) // n)
        reduced = False
        for i in range(0, len(cur), chunk):
            cand = cur[:i] + cur[i + chunk:]
            if cand and fails(cand):
                cur = cand
                n = max(n - 1, 2)
                reduced = True
                break
        if not reduced:
            if chunk == 1:
                break
            n = min(len(cur), n * 2)
    # shrink the query list of the last probe
    if cur and cur[-1]["op"] == "probe" and len(cur[-1]["queries"]) > 1:
        qs = cur[-1]["queries"]
        for q in list(qs):
            cand = cur[:-1] + [{"op": "probe", "queries": [q]}]
            if fails(cand):
                cur = cand
                break
    return cur
