"""setup_cmd: validate the environment the checks need (offline)."""
import os, shutil, subprocess, sys, tempfile
from . import build as gbuild
VERIF = os.path.dirname(os.path.dirname(os.path.abspath(__file__)))

def main():
    ok = True
    print("python", sys.version.split()[0])
    import google.protobuf
    print("protobuf", google.protobuf.__version__)
    for m in ("intervaltree", "sortedcontainers", "networkx", "typing_extensions"):
        __import__(m)
    try:
        d = gbuild.build()
    except gbuild.BuildError as e:
        print("BUILD FAILED:", e); return 1
    env = dict(os.environ, PYTHONPATH=d + os.pathsep + VERIF)
    for backend in ("upb", "python"):
        e2 = dict(env, PROTOCOL_BUFFERS_PYTHON_IMPLEMENTATION=backend)
        r = subprocess.run([sys.executable, "-c",
            "import gtirb,io;from google.protobuf.internal import api_implementation as a;"
            "ir=gtirb.IR();b=io.BytesIO();ir.save_protobuf_file(b);"
            "gtirb.IR.load_protobuf_file(io.BytesIO(b.getvalue()));print(a.Type(), gtirb.__file__)"],
            env=e2, capture_output=True, text=True)
        print("backend", backend, "->", r.stdout.strip() or r.stderr.strip()[-300:])
        if r.returncode != 0:
            ok = False
    # informational: compare mini-protoc descriptors with the installed wheel's (real protoc output)
    r = subprocess.run([sys.executable, "-m", "gtmon.protoc_selftest", d], env=dict(os.environ, PYTHONPATH=VERIF),
                       capture_output=True, text=True, cwd=VERIF)
    print(r.stdout.strip() or r.stderr.strip()[-500:])
    # trusted base: the reference codec against golden vectors and against
    # tables written by the C++ implementation (python/tests/hello.gtirb)
    r = subprocess.run([sys.executable, "-m", "gtmon.oracle_selftest", d],
                       env=env, capture_output=True, text=True, cwd=VERIF)
    print(r.stdout.strip() or r.stderr.strip()[-500:])
    if r.returncode != 0:
        ok = False
    print("javac:", shutil.which("javac") or "absent (C08 Java cross-check will be skipped)")
    return 0 if ok else 1

if __name__ == "__main__":
    sys.exit(main())
