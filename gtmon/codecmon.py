"""Shared monitor for the AuxData binary codec: C07 (round trip, consumption,
identity) and C08 (wire format: reference encoder, foreign bytes, Java)."""
import io
import json
import os
import uuid as _uuid

from . import auxgen, refcodec, reftypes
from .ctx import Discrepancy, OpTimeout, op_guard

SENT = 0xA5A55A5AC3C33C3C
JAVA_LEAVES = ["int8_t", "uint8_t", "int16_t", "uint16_t", "int32_t",
               "uint32_t", "int64_t", "uint64_t", "bool", "float", "string",
               "UUID", "Offset"]


def java_ok(t):
    name, kids = t
    if name in refcodec.CONTAINERS:
        if name == "tuple" and not (1 <= len(kids) <= 5):
            return False
        if name == "variant" and len(kids) not in (2, 3):
            return False
        return all(java_ok(k) for k in kids)
    return name in JAVA_LEAVES


def to_json(n):
    """neutral (normal form or not) -> JSON-able."""
    if isinstance(n, tuple):
        tag = n[0]
        if tag in ("f32", "f64"):
            return {tag: n[1]}
        if tag == "u":
            return {"u": n[1].hex()}
        if tag == "o":
            return {"o": n[1].hex(), "d": n[2]}
        if tag in ("seq", "set", "tup"):
            return {tag: [to_json(x) for x in n[1]]}
        if tag == "map":
            return {"map": [[to_json(k), to_json(v)] for k, v in n[1]]}
        if tag == "var":
            return {"var": n[1], "val": to_json(n[2])}
    return n


def from_json(j):
    if isinstance(j, dict):
        if "f32" in j:
            return ("f32", j["f32"])
        if "f64" in j:
            return ("f64", j["f64"])
        if "u" in j:
            return ("u", bytes.fromhex(j["u"]))
        if "o" in j:
            return ("o", bytes.fromhex(j["o"]), j["d"])
        for tag in ("seq", "set", "tup"):
            if tag in j:
                return (tag, [from_json(x) for x in j[tag]])
        if "map" in j:
            return ("map", [(from_json(k), from_json(v)) for k, v in j["map"]])
        if "var" in j:
            return ("var", j["var"], from_json(j["val"]))
    return j


class CodecMonitor:
    def __init__(self, ctx, gt):
        self.ctx = ctx
        self.gt = gt
        self.ser = gt.AuxData.serializer
        self.java_out = None
        self.java_seq = 0
        d = ctx.params.get("java_dir")
        if d:
            self.java_out = open(
                os.path.join(d, "w%d.tsv" % ctx.worker), "a",
                encoding="utf-8")

    # -- primitives on the real code ----------------------------------
    def pyenc(self, v, tn):
        b = io.BytesIO()
        with op_guard():
            try:
                self.ser.encode(b, v, tn)
            except OpTimeout:
                self.ctx.timeouts += 1
                raise
        return b.getvalue()

    def pydec(self, raw, tn, resolver=None):
        with op_guard(4.0):
            try:
                return self.ser.decode(raw, tn, resolver)
            except OpTimeout:
                self.ctx.timeouts += 1
                raise

    # -- helpers ---------------------------------------------------------
    def subvalues(self, v, t):
        """Yield (subvalue, subtype) of direct children."""
        name, kids = t
        if name in ("sequence", "set"):
            for x in v:
                yield x, kids[0]
        elif name == "mapping":
            for k, x in v.items():
                yield k, kids[0]
                yield x, kids[1]
        elif name == "tuple":
            for x, kt in zip(v, kids):
                yield x, kt
        elif name == "variant":
            yield v.val, kids[v.index]

    def culprit(self, v, t, bad):
        """Name of the smallest sub-type whose own (value, type) is bad."""
        for x, xt in self.subvalues(v, t):
            try:
                b = bad(x, xt)
            except Exception:
                b = True
            if b:
                return self.culprit(x, xt, bad)
        return t[0]

    def expected(self, v, t):
        return refcodec.norm(refcodec.neutral(v, t))

    def decoded_norm(self, d, t):
        return refcodec.norm(refcodec.neutral(d, t))

    def roundtrip_bad(self, v, t, pool):
        tn = reftypes.show(t)
        try:
            raw = self.pyenc(v, tn)
            d = self.pydec(raw, tn, pool.ir.get_by_uuid)
            return self.decoded_norm(d, t) != self.expected(v, t)
        except Exception:
            return True

    def bytes_bad(self, v, t):
        tn = reftypes.show(t)
        try:
            return self.pyenc(v, tn) != refcodec.encode(v, t)
        except Exception:
            return True

    # -- C07 ------------------------------------------------------------
    def check_roundtrip(self, case, t, v, pool):
        ctx, gt = self.ctx, self.gt
        tn = reftypes.show(t)
        want = self.expected(v, t)
        try:
            raw = self.pyenc(v, tn)
        except Exception as e:
            c = self.culprit(v, t, lambda x, xt: self._enc_raises(x, xt))
            raise Discrepancy(
                "C07", "encode-raises:%s:%s" % (c, type(e).__name__),
                "encoding a value of type %s raised %s: %s"
                % (tn, type(e).__name__, str(e)[:120]),
                {"type": tn, "value": auxgen.describe(v, t)})
        try:
            d = self.pydec(raw, tn, pool.ir.get_by_uuid)
        except Exception as e:
            c = self.culprit(v, t, lambda x, xt: self.roundtrip_bad(x, xt, pool))
            raise Discrepancy(
                "C07", "decode-raises:%s:%s" % (c, type(e).__name__),
                "decoding this API's own encoding of a %s raised %s: %s"
                % (tn, type(e).__name__, str(e)[:120]),
                {"type": tn, "value": auxgen.describe(v, t),
                 "bytes": raw.hex()[:400]})
        ctx.count("oracle_comparisons")
        errs = auxgen.shape_errors(d, t, gt)
        if errs:
            raise Discrepancy("C07", "decoded-shape:%s" % t[0],
                              "decoded value has wrong Python shape: %s"
                              % errs[0], {"type": tn, "errors": errs[:5]})
        got = self.decoded_norm(d, t)
        if got != want:
            c = self.culprit(v, t, lambda x, xt: self.roundtrip_bad(x, xt, pool))
            raise Discrepancy(
                "C07", "roundtrip-value:%s" % c,
                "decode(encode(v)) != v for type %s (smallest failing "
                "sub-type: %s)" % (tn, c),
                {"type": tn, "value": auxgen.describe(v, t),
                 "got": to_json(got), "bytes": raw.hex()[:400]})
        errs = auxgen.identity_errors(d, t, gt, pool.by_uuid)
        ctx.count("identity_checks")
        if errs:
            raise Discrepancy("C07", "identity",
                              "UUID/Offset entry identity: %s" % errs[0],
                              {"type": tn, "errors": errs[:5]})
        # without a resolver everything is a plain UUID
        d0 = self.pydec(raw, tn)
        errs = auxgen.identity_errors(d0, t, gt, {})
        if errs or self.decoded_norm(d0, t) != want:
            raise Discrepancy("C07", "identity-no-resolver",
                              "decode without a node lookup: %s"
                              % (errs[:1] or "value differs"), {"type": tn})
        # consumption, observed through public API by embedding
        self.check_consumption(case, t, v, pool, tn, want)
        return raw

    def _enc_raises(self, x, xt):
        try:
            self.pyenc(x, reftypes.show(xt))
            return False
        except Exception:
            return True

    def check_consumption(self, case, t, v, pool, tn, want):
        ctx, gt = self.ctx, self.gt
        rnd = case.rnd
        res = pool.ir.get_by_uuid
        forms = []
        forms.append(("tuple<%s,uint64_t>" % tn, ("tuple", [t, ("uint64_t", [])]),
                      (v, SENT), lambda d: (d[1], d[0])))
        w = auxgen.gen_value(rnd, t, pool)
        forms.append(("sequence<%s>" % tn, ("sequence", [t]), [v, w, v],
                      lambda d: (len(d), d[2])))
        forms.append(("variant<string,%s>" % tn,
                      ("variant", [("string", []), t]), gt.Variant(1, v),
                      lambda d: (d.index, d.val)))
        forms.append(("mapping<uint16_t,%s>" % tn,
                      ("mapping", [("uint16_t", []), t]), {1: v, 65535: v},
                      lambda d: (sorted(d), d[65535])))
        name, f_t, f_v, pick = forms[rnd.randrange(len(forms))] \
            if ctx.tier == "quick" else (None, None, None, None)
        todo = forms if name is None else [(name, f_t, f_v, pick)]
        for name, f_t, f_v, pick in todo:
            try:
                raw = self.pyenc(f_v, name)
                d = self.pydec(raw, name, res)
                marker, inner = pick(d)
            except Exception as e:
                raise Discrepancy(
                    "C07", "consumption:%s" % self.culprit(
                        v, t, lambda x, xt: self.roundtrip_bad(x, xt, pool)),
                    "value of type %s embedded as %s fails to round-trip "
                    "(%s: %s): the decoder does not consume what the "
                    "encoder produced" % (tn, name.split("<")[0],
                                          type(e).__name__, str(e)[:100]),
                    {"type": name, "value": auxgen.describe(v, t)})
            ctx.count("consumption_checks")
            want_marker = {"tuple": SENT, "sequence": 3, "variant": 1,
                           "mapping": [1, 65535]}[name.split("<")[0]]
            if marker != want_marker or self.decoded_norm(inner, t) != want:
                raise Discrepancy(
                    "C07", "consumption:%s" % self.culprit(
                        v, t, lambda x, xt: self.roundtrip_bad(x, xt, pool)),
                    "value of type %s embedded as %s: neighbours misaligned "
                    "after decode (decoder consumed a different number of "
                    "bytes than the encoder produced)"
                    % (tn, name.split("<")[0]),
                    {"type": name, "value": auxgen.describe(v, t)})

    # -- C08 ------------------------------------------------------------
    def check_format(self, case, t, v, pool):
        ctx = self.ctx
        rnd = case.rnd
        tn = reftypes.show(t)
        want = self.expected(v, t)
        ref = refcodec.encode(v, t)
        try:
            raw = self.pyenc(v, tn)
        except Exception as e:
            raise Discrepancy(
                "C08", "encode-raises:%s:%s" % (
                    self.culprit(v, t, self._enc_raises), type(e).__name__),
                "encoding a %s raised %s" % (tn, type(e).__name__),
                {"type": tn, "value": auxgen.describe(v, t)})
        ctx.count("oracle_comparisons")
        ctx.count("bytes_compared", len(ref))
        if raw != ref:
            c = self.culprit(v, t, self.bytes_bad)
            raise Discrepancy(
                "C08", "encode-bytes-differ:%s" % c,
                "bytes for a %s differ from the documented format (smallest "
                "differing sub-type: %s)" % (tn, c),
                {"type": tn, "value": auxgen.describe(v, t),
                 "got": raw.hex()[:600], "want": ref.hex()[:600]})
        # reference decoder must consume this API's bytes exactly
        try:
            n, pos = refcodec.decode(raw, t)
            ok = pos == len(raw) and refcodec.norm(n) == want
        except refcodec.RefError:
            ok = False
        if not ok:
            raise Discrepancy("C08", "reference-decoder-disagrees:%s" % t[0],
                              "an independent decoder does not read this "
                              "API's bytes for %s back to the value" % tn,
                              {"type": tn, "bytes": raw.hex()[:600]})
        # foreign bytes: any element order, duplicate set entries
        def order(items):
            items = list(items)
            rnd.shuffle(items)
            return items

        foreign = refcodec.encode(v, t, order)
        # expectation from the foreign bytes themselves (with colliding keys
        # the last one on the wire wins, so element order matters)
        want_f = refcodec.norm(refcodec.decode(foreign, t)[0])
        try:
            d = self.pydec(foreign, tn, pool.ir.get_by_uuid)
            got = self.decoded_norm(d, t)
        except Exception as e:
            got = "raised %s: %s" % (type(e).__name__, str(e)[:100])
        ctx.count("foreign_bytes_decoded")
        if foreign != raw:
            ctx.count("foreign_bytes_differently_ordered")
        if got != want_f:
            def dec_bad(x, xt):
                try:
                    dd = self.pydec(refcodec.encode(x, xt),
                                    reftypes.show(xt), pool.ir.get_by_uuid)
                    return self.decoded_norm(dd, xt) != self.expected(x, xt)
                except Exception:
                    return True
            c = self.culprit(v, t, dec_bad)
            raise Discrepancy(
                "C08", "decode-foreign-bytes:%s" % c,
                "bytes written by an independent encoder for a %s decode to "
                "a different value (smallest failing sub-type: %s)"
                % (tn, c),
                {"type": tn, "value": auxgen.describe(v, t),
                 "bytes": foreign.hex()[:600],
                 "got": got if isinstance(got, str) else to_json(got)})
        if self.java_out is not None and java_ok(t) and \
                self.java_seq < self.ctx.params.get("java_max_per_worker",
                                                    10 ** 9):
            self.java_seq += 1
            self.java_out.write("%s:%d:%d\t%s\t%s\t%s\n" % (
                case.stream, case.index, self.java_seq, tn, raw.hex(),
                json.dumps(to_json(want))))
            ctx.count("java:cases_written")
        return raw

    def failed_encode(self, case, t, v):
        """Hostile step: an encode that fails half-way (a valid value
        followed by an out-of-range / ill-typed field).  Only counts what
        happened; the *following* encodes are judged as usual, so state left
        behind by the failure shows up there."""
        rnd = case.rnd
        tn = reftypes.show(t)
        bad_t, bad_v = rnd.choice([
            ("tuple<%s,uint8_t>" % tn, (v, 300)),
            ("tuple<%s,int8_t>" % tn, (v, -129)),
            ("tuple<%s,string>" % tn, (v, 7)),
            ("sequence<%s>" % tn, [v, object()]),
            ("tuple<%s,bool>" % tn, (v, "yes")),
            ("tuple<%s,UUID>" % tn, (v, 12)),
            ("tuple<%s,foo>" % tn, (v, 1)),
            ("mapping<uint8_t,%s>" % tn, {1: v, 256: v}),
        ])
        try:
            self.pyenc(bad_v, bad_t)
            self.ctx.count("failed_encode:did_not_fail")
        except OpTimeout:
            raise
        except Exception as e:
            self.ctx.count("failed_encode:" + type(e).__name__)
        self.ctx.count("failed_encodes")

    def failed_decode(self, case, t, v):
        """Hostile step: decodes that fail or fall back on the (process-wide)
        serializer - a type with an unknown name nested below known
        containers, truncated bytes, a corrupted count.  Only counted; the
        following valid round trips are judged as usual."""
        rnd = case.rnd
        tn = reftypes.show(t)
        try:
            good = refcodec.encode(v, t)
        except Exception:
            return
        k = rnd.randrange(4)
        if k == 0:
            typ = "mapping<string,sequence<tuple<%s,myToolRecord>>>" % tn
            raw = refcodec._u64(1) + refcodec._u64(1) + b"k" + \
                refcodec._u64(1) + good + b"junk"
        elif k == 1:
            typ = "sequence<sequence<%s>>" % tn
            raw = refcodec._u64(1) + refcodec._u64(2) + good  # 2nd missing
        elif k == 2:
            typ = "tuple<%s,variant<string,uint8_t>>" % tn
            raw = good + refcodec._u64(7)  # variant index out of range
        else:
            typ = "sequence<tuple<string,%s>>" % tn
            raw = refcodec._u64(1) + refcodec._u64(3) + b"\xff\xfe\xfd" + \
                good  # invalid UTF-8
        try:
            self.pydec(raw, typ)
            self.ctx.count("failed_decode:returned")
        except OpTimeout:
            raise
        except Exception as e:
            self.ctx.count("failed_decode:" + type(e).__name__)
        self.ctx.count("failed_decodes")

    def close(self):
        if self.java_out:
            self.java_out.close()


def gen_case(rnd, pool, java_bias=0.0, big=False):
    if big:
        # either deep (nesting 5-6, short containers) or wide (nesting <= 2,
        # hundreds of elements): the value stays below ~10^4 leaves so that
        # the CPU-time guard of a single call is never a matter of size
        if rnd.random() < 0.5:
            t = auxgen.gen_type(rnd, rnd.choice([5, 6]))
            return t, auxgen.gen_value(rnd, t, pool, maxlen=3)
        t = auxgen.gen_type(rnd, rnd.choice([1, 2]))
        return t, auxgen.gen_value(rnd, t, pool,
                                   maxlen=rnd.choice([60, 300]))
    return _gen_case(rnd, pool, java_bias)


def _gen_case(rnd, pool, java_bias=0.0):
    if rnd.random() < java_bias:
        for _ in range(20):
            t = auxgen.gen_type(rnd, rnd.choice([0, 1, 2, 2, 3, 4]),
                                names=JAVA_LEAVES, max_fields=5)
            t = fix_variants(rnd, t)
            if java_ok(t):
                break
    else:
        t = auxgen.gen_type(rnd, rnd.choice([0, 1, 2, 2, 3, 3, 4]))
    v = auxgen.gen_value(rnd, t, pool)
    return t, v


def fix_variants(rnd, t):
    name, kids = t
    kids = [fix_variants(rnd, k) for k in kids]
    if name == "variant":
        while len(kids) < 2:
            kids.append((rnd.choice(JAVA_LEAVES), []))
        kids = kids[:3]
    return (name, kids)


_PRIVATE = []


def private_serialization(gt, ctx):
    """A second Serialization instance, customised the documented way
    (entries of its ``codecs`` replaced, removed and added) and kept alive
    for the whole run: what one instance is told must not reach the
    process-wide ``AuxData.serializer`` that every judged call goes
    through."""
    ser = getattr(gt, "Serialization", None)
    mod = getattr(gt, "serialization", None)
    if ser is None or mod is None:
        ctx.note("no public Serialization class: private-instance step "
                 "skipped")
        return
    try:
        priv = ser()
        codecs = priv.codecs
        swap = {"string": "Uint64Codec", "Addr": "Int64Codec",
                "uint8_t": "Int64Codec", "sequence": "SetCodec",
                "float": "DoubleCodec"}
        for name, cls in swap.items():
            c = getattr(mod, cls, None)
            if c is not None and name in codecs:
                codecs[name] = c
        for name in ("bool", "UUID", "tuple"):
            codecs.pop(name, None)
        codecs["foo"] = getattr(mod, "StringCodec", None) or next(
            iter(codecs.values()))
        _PRIVATE.append(priv)
        ctx.count("private_serialization_instances_customised")
    except Exception as e:  # a read-only table, say: nothing to leak then
        ctx.note("private Serialization could not be customised: %s"
                 % type(e).__name__)
