"""Prototype: parse the proto3 subset used by gtirb/proto/*.proto into FileDescriptorProto."""
import re, sys, os
from google.protobuf import descriptor_pb2 as dp

SCALARS = {n: getattr(dp.FieldDescriptorProto, "TYPE_" + n.upper()) for n in
           "double float int32 int64 uint32 uint64 sint32 sint64 fixed32 fixed64 sfixed32 sfixed64 bool string bytes".split()}
TOK = re.compile(r'\s+|//[^\n]*|/\*.*?\*/|("(?:[^"\\]|\\.)*")|([A-Za-z_][A-Za-z0-9_.]*)|(-?\d+)|([{}\[\]()<>=;,])', re.S)

def tokenize(src):
    pos, out = 0, []
    while pos < len(src):
        m = TOK.match(src, pos)
        if not m: raise SyntaxError("bad char at %d: %r" % (pos, src[pos:pos+20]))
        pos = m.end()
        if m.group(1): out.append(("str", m.group(1)[1:-1]))
        elif m.group(2): out.append(("id", m.group(2)))
        elif m.group(3): out.append(("int", int(m.group(3))))
        elif m.group(4): out.append(("p", m.group(4)))
    return out

class P:
    def __init__(self, toks): self.t, self.i = toks, 0
    def peek(self): return self.t[self.i] if self.i < len(self.t) else (None, None)
    def next(self): x = self.t[self.i]; self.i += 1; return x
    def expect(self, kind, val=None):
        k, v = self.next()
        if k != kind or (val is not None and v != val): raise SyntaxError("expected %s %s got %s %s" % (kind, val, k, v))
        return v
    def accept(self, kind, val):
        if self.peek() == (kind, val): self.i += 1; return True
        return False

def camel(s): return "".join(p[:1].upper() + p[1:] for p in s.split("_"))

def parse_file(path, name, import_prefix):
    p = P(tokenize(open(path).read()))
    f = dp.FileDescriptorProto(); f.name = name
    local_types = {}  # filled by caller for resolution
    unresolved = []
    while p.peek()[0] is not None:
        k, v = p.next()
        if (k, v) == ("p", ";"): continue
        if v == "syntax":
            p.expect("p", "="); s = p.expect("str"); p.expect("p", ";")
            assert s == "proto3"; f.syntax = "proto3"
        elif v == "package":
            f.package = p.expect("id"); p.expect("p", ";")
        elif v == "option":
            n = p.expect("id"); p.expect("p", "="); val = p.next()[1]; p.expect("p", ";")
            if n == "java_package": f.options.java_package = val
            else: raise SyntaxError("option " + n)
        elif v == "import":
            f.dependency.append(import_prefix + p.expect("str")); p.expect("p", ";")
        elif v == "enum":
            parse_enum(p, f.enum_type.add())
        elif v == "message":
            parse_message(p, f.message_type.add(), unresolved)
        else:
            raise SyntaxError("unexpected %r" % (v,))
    return f, unresolved

def parse_enum(p, e):
    e.name = p.expect("id"); p.expect("p", "{")
    while not p.accept("p", "}"):
        if p.accept("p", ";"): continue
        n = p.expect("id")
        if n == "option": skip_option_stmt(p); continue
        if n == "reserved":
            while not p.accept("p", ";"): p.next()
            continue
        p.expect("p", "="); num = p.expect("int")
        v = e.value.add(); v.name = n; v.number = num
        skip_field_options(p, v); p.expect("p", ";")

def parse_reserved(p, m):
    while True:
        k, v = p.next()
        if k == "str": m.reserved_name.append(v)
        elif k == "int":
            r = m.reserved_range.add(); r.start = v; r.end = v + 1
            if p.peek() == ("id", "to"):
                p.next(); r.end = p.expect("int") + 1
        else: raise SyntaxError("reserved")
        if p.accept("p", ";"): return
        p.expect("p", ",")

def parse_field(p, m, first, unresolved, oneof_index=None):
    fld = m.field.add()
    label = dp.FieldDescriptorProto.LABEL_OPTIONAL
    tname = first
    proto3_optional = False
    if first == "repeated":
        label = dp.FieldDescriptorProto.LABEL_REPEATED; tname = p.expect("id")
    elif first == "optional":
        proto3_optional = True; tname = p.expect("id")
    if tname == "map":
        p.expect("p", "<"); kt = p.expect("id"); p.expect("p", ","); vt = p.expect("id"); p.expect("p", ">")
        fname = p.expect("id"); p.expect("p", "="); num = p.expect("int")
        skip_field_options(p, fld); p.expect("p", ";")
        entry = m.nested_type.add(); entry.name = camel(fname) + "Entry"; entry.options.map_entry = True
        kf = entry.field.add(); kf.name = "key"; kf.number = 1; kf.label = 1; kf.type = SCALARS[kt]
        vf = entry.field.add(); vf.name = "value"; vf.number = 2; vf.label = 1
        set_type(vf, vt, unresolved)
        fld.name = fname; fld.number = num; fld.label = dp.FieldDescriptorProto.LABEL_REPEATED
        fld.type = dp.FieldDescriptorProto.TYPE_MESSAGE
        fld.type_name = "@NESTED@" + entry.name
        unresolved.append((fld, m))
        return
    fname = p.expect("id"); p.expect("p", "="); num = p.expect("int")
    skip_field_options(p, fld); p.expect("p", ";")
    fld.name = fname; fld.number = num; fld.label = label
    set_type(fld, tname, unresolved)
    if oneof_index is not None: fld.oneof_index = oneof_index
    if proto3_optional:
        o = m.oneof_decl.add(); o.name = "_" + fname
        fld.oneof_index = len(m.oneof_decl) - 1; fld.proto3_optional = True

def skip_field_options(p, fld):
    """[deprecated = true, json_name = "x"]: deprecated is kept, the rest is
    accepted and ignored (it does not change the wire format)."""
    if not p.accept("p", "["):
        return
    while True:
        n = p.expect("id"); p.expect("p", "="); v = p.next()[1]
        if n == "deprecated" and v == "true": fld.options.deprecated = True
        elif n == "json_name": fld.json_name = v
        elif n not in ("packed",): raise SyntaxError("field option " + n)
        if p.accept("p", "]"): return
        p.expect("p", ",")


def skip_option_stmt(p):
    """option <name> = <value>;  inside a message or enum body."""
    p.expect("id"); p.expect("p", "="); p.next(); p.expect("p", ";")


def set_type(fld, tname, unresolved):
    if tname in SCALARS: fld.type = SCALARS[tname]
    else:
        fld.type_name = tname; unresolved.append((fld, None))

def parse_message(p, m, unresolved):
    m.name = p.expect("id"); p.expect("p", "{")
    while not p.accept("p", "}"):
        if p.accept("p", ";"): continue
        k, v = p.next()
        if v == "reserved": parse_reserved(p, m)
        elif v == "option": skip_option_stmt(p)
        elif v == "oneof":
            o = m.oneof_decl.add(); o.name = p.expect("id"); idx = len(m.oneof_decl) - 1
            p.expect("p", "{")
            while not p.accept("p", "}"):
                parse_field(p, m, p.expect("id"), unresolved, idx)
        elif v == "message": parse_message(p, m.nested_type.add(), unresolved)
        elif v == "enum": parse_enum(p, m.enum_type.add())
        else: parse_field(p, m, v, unresolved)

def compile_dir(proto_dir, import_prefix="gtirb/proto/"):
    files = {}
    for fn in sorted(os.listdir(proto_dir)):
        if fn.endswith(".proto"):
            files[fn] = parse_file(os.path.join(proto_dir, fn), import_prefix + fn, import_prefix)
    # symbol table
    kinds = {}
    for fn, (f, _) in files.items():
        for m in f.message_type: kinds[m.name] = ("msg", f.package)
        for e in f.enum_type: kinds[e.name] = ("enum", f.package)
    for fn, (f, unresolved) in files.items():
        for fld, owner in unresolved:
            if fld.type_name.startswith("@NESTED@"):
                fld.type_name = ".%s.%s.%s" % (f.package, owner.name, fld.type_name[8:]); continue
            kind, pkg = kinds[fld.type_name]
            fld.type = dp.FieldDescriptorProto.TYPE_MESSAGE if kind == "msg" else dp.FieldDescriptorProto.TYPE_ENUM
            fld.type_name = ".%s.%s" % (pkg, fld.type_name)
    return {fn: f for fn, (f, _) in files.items()}

if __name__ == "__main__":
    out = compile_dir(sys.argv[1])
    for fn, f in out.items(): print(fn, len(f.SerializeToString()))
