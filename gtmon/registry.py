"""Per-property configuration (pure data; must not import gtirb).

tiers[...] keys: workers, n_* case counts (scaled by --scale), plus driver
specific parameters; cpu_budget_s is the per-worker soft CPU budget after
which remaining cases are skipped (=> inconclusive), cpu_hard_s the RLIMIT.
"""

import shutil
import tempfile

from . import javax


def c02_pre(params):
    params["share_dir"] = tempfile.mkdtemp(prefix="gtmon-c02-")


def c02_post(m, env):
    shutil.rmtree(env["params"].get("share_dir", ""), ignore_errors=True)

REGISTRY = {
    "C19": {"level": "exploration", "tiers": {
        "quick": {"workers": 8, "n_hist": 2400, "n_neg": 64},
        "thorough": {"workers": 16, "n_hist": 600000, "n_neg": 8000}}},
    "C14": {"level": "exploration", "tiers": {
        "quick": {"workers": 8, "n_files": 12000},
        "thorough": {"workers": 16, "n_files": 1800000}}},
    "C11": {"level": "exploration", "tiers": {
        "quick": {"workers": 16, "n_hist": 1600},
        "thorough": {"workers": 16, "n_hist": 160000}}},
    "C12": {"level": "exploration", "tiers": {
        "quick": {"workers": 16, "n_hist": 420, "n_scale": 4,
                  "scale_sizes": [40, 300, 2100, 1100]},
        "thorough": {"workers": 16, "n_hist": 12000, "n_scale": 320,
                     "scale_sizes": [300, 700, 1100, 2100, 4200]}}},
    "C05": {"level": "exploration", "tiers": {
        "quick": {"workers": 16, "n_hist": 320},
        "thorough": {"workers": 16, "n_hist": 30000}}},
    "C06": {"level": "exploration", "tiers": {
        "quick": {"workers": 16, "n_hist": 1600},
        "thorough": {"workers": 16, "n_hist": 120000}}},
    "C13": {"level": "exploration", "tiers": {
        "quick": {"workers": 16, "n_hist": 1600},
        "thorough": {"workers": 16, "n_hist": 180000}}},
    "C03": {"level": "exploration", "tiers": {
        "quick": {"workers": 16, "n_hist": 480},
        "thorough": {"workers": 16, "n_hist": 90000}}},
    "C04": {"level": "exploration", "tiers": {
        "quick": {"workers": 16, "n_hist": 480, "n_iso": 8},
        "thorough": {"workers": 16, "n_hist": 90000, "n_iso": 64}}},
    "C10": {"level": "exploration", "tiers": {
        "quick": {"workers": 16, "n_hist": 480},
        "thorough": {"workers": 16, "n_hist": 90000}}},
    "C16": {"level": "exploration", "tiers": {
        "quick": {"workers": 16, "n_hist": 400, "n_map": 320},
        "thorough": {"workers": 16, "n_hist": 96000, "n_map": 64000}}},
    "C18": {
        "level": "exploration",
        "tiers": {
            "quick": {"workers": 16, "n_pairs": 480,
                      "perturbations_per_case": 14},
            "thorough": {"workers": 16, "n_pairs": 24000,
                         "perturbations_per_case": 40},
        },
    },
    "C17": {
        # thorough also runs a share of the workload under the pure-Python
        # protobuf backend (separate worker processes)
        "configs": [
            {"name": "upb", "env": {
                "PROTOCOL_BUFFERS_PYTHON_IMPLEMENTATION": "upb"}},
            {"name": "python", "tiers": ("thorough",), "env": {
                "PROTOCOL_BUFFERS_PYTHON_IMPLEMENTATION": "python"}},
        ],
        "level": "fault_enumeration",
        "tiers": {
            "quick": {"workers": 16, "n_seed": 48, "bitflip_complete_max": 400,
                      "bitflip_sample": 800, "substitutions": 150},
            "thorough": {"workers": 16, "n_seed": 1600,
                         "bitflip_complete_max": 1500,
                         "bitflip_sample": 4000, "substitutions": 600},
        },
    },
    "C09": {
        # thorough also runs a share of the workload under the pure-Python
        # protobuf backend (separate worker processes)
        "configs": [
            {"name": "upb", "env": {
                "PROTOCOL_BUFFERS_PYTHON_IMPLEMENTATION": "upb"}},
            {"name": "python", "tiers": ("thorough",), "env": {
                "PROTOCOL_BUFFERS_PYTHON_IMPLEMENTATION": "python"}},
        ],
        "level": "exploration",
        "tiers": {
            "quick": {"workers": 8, "n_refs": 1000},
            "thorough": {"workers": 16, "n_refs": 240000},
        },
    },
    "C02": {
        "level": "exploration",
        "pre": c02_pre, "post": c02_post,
        "configs": [
            {"name": "upb", "env": {
                "PROTOCOL_BUFFERS_PYTHON_IMPLEMENTATION": "upb"}},
            {"name": "python", "env": {
                "PROTOCOL_BUFFERS_PYTHON_IMPLEMENTATION": "python"}},
        ],
        "tiers": {
            "quick": {"workers": 8, "n_spec": 800, "python_scale": 0.25},
            "thorough": {"workers": 16, "n_spec": 200000, "python_scale": 0.5},
        },
    },
    "C01": {
        # thorough also runs a share of the workload under the pure-Python
        # protobuf backend (separate worker processes)
        "configs": [
            {"name": "upb", "env": {
                "PROTOCOL_BUFFERS_PYTHON_IMPLEMENTATION": "upb"}},
            {"name": "python", "tiers": ("thorough",), "env": {
                "PROTOCOL_BUFFERS_PYTHON_IMPLEMENTATION": "python"}},
        ],
        "level": "exploration",
        "tiers": {
            "quick": {"workers": 8, "n_spec": 1200},
            "thorough": {"workers": 16, "n_spec": 400000},
        },
    },
    "C07": {
        "level": "exploration",
        "tiers": {
            "quick": {"workers": 8, "n_rt": 3200},
            "thorough": {"workers": 16, "n_rt": 300000},
        },
    },
    "C08": {
        "level": "exploration",
        "pre": javax.pre, "post": javax.post,
        "tiers": {
            "quick": {"workers": 8, "n_fmt": 2400, "java_max_per_worker": 6000},
            "thorough": {"workers": 16, "n_fmt": 200000,
                         "java_max_per_worker": 12000},
        },
    },
    "C15": {
        "level": "exploration",
        "tiers": {
            "quick": {"workers": 8, "enum_len": 8, "n_gen": 1600},
            "thorough": {"workers": 16, "enum_len": 11, "enum2_len": 8,
                         "n_gen": 400000},
        },
    },
}
