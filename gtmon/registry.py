"""Per-property configuration (pure data; must not import gtirb).

tiers[...] keys: workers, n_* case counts (scaled by --scale), plus driver
specific parameters; cpu_budget_s is the per-worker soft CPU budget after
which remaining cases are skipped (=> inconclusive), cpu_hard_s the RLIMIT.
"""

from . import javax

REGISTRY = {
    "C07": {
        "level": "exploration",
        "tiers": {
            "quick": {"workers": 8, "n_rt": 3200},
            "thorough": {"workers": 16, "n_rt": 60000},
        },
    },
    "C08": {
        "level": "exploration",
        "pre": javax.pre, "post": javax.post,
        "tiers": {
            "quick": {"workers": 8, "n_fmt": 2400},
            "thorough": {"workers": 16, "n_fmt": 40000},
        },
    },
    "C15": {
        "level": "exploration",
        "tiers": {
            "quick": {"workers": 8, "enum_len": 8, "n_gen": 1600},
            "thorough": {"workers": 16, "enum_len": 10, "n_gen": 40000},
        },
    },
}
