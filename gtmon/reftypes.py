"""Reference recogniser for AuxData type names (C15), independent of
gtirb.serialization: an iterative, explicit-stack parser of

    T ::= name | name '<' T (',' T)* '>'      name = [^<>,]+

``parse(s)`` returns the tree ``(name, [children...])`` or None if s is not in
the language.  No recursion, so nesting depth is not limited by the
interpreter stack.
"""
DELIMS = "<>,"


def parse(s):
    pos, n = 0, len(s)
    stack = []  # open nodes (those whose '<' has been read)
    root = None
    while True:
        st = pos
        while pos < n and s[pos] not in DELIMS:
            pos += 1
        if pos == st:
            return None  # a name is required here
        node = (s[st:pos], [])
        if stack:
            stack[-1][1].append(node)
        else:
            if root is not None:
                return None
            root = node
        if pos < n and s[pos] == "<":
            pos += 1
            stack.append(node)
            continue
        while pos < n and s[pos] == ">":
            if not stack:
                return None
            stack.pop()
            pos += 1
        if pos == n:
            return root if not stack else None
        if s[pos] == ",":
            if not stack:
                return None
            pos += 1
            continue
        return None  # name character or '<' directly after '>'


def show(t):
    """Print a tree back to its type name (iteratively)."""
    out = []
    work = [t]
    while work:
        x = work.pop()
        if isinstance(x, str):
            out.append(x)
            continue
        name, kids = x
        out.append(name)
        if kids:
            items = ["<"]
            for i, k in enumerate(kids):
                if i:
                    items.append(",")
                items.append(k)
            items.append(">")
            work.extend(reversed(items))
    return "".join(out)


def depth(t):
    d, work = 0, [(t, 1)]
    while work:
        (name, kids), k = work.pop()
        d = max(d, k)
        work.extend((c, k + 1) for c in kids)
    return d


def size(t):
    n, work = 0, [t]
    while work:
        name, kids = work.pop()
        n += 1
        work.extend(kids)
    return n
