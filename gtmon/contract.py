"""Interchange contract (C02): a hand-written, independent statement of which
public attribute corresponds to which schema field, and which Python enum
member to which schema constant *name*.  Schema numbers are always taken from
the freshly compiled descriptors by constant name, never from the Python
enums.

Message data form: dict field -> value; repeated -> list; map -> dict;
bytes -> hex string; sub-message -> dict; a field with presence (one-of
member, sub-message) that is unset is absent.
"""
import json

# enum -> {schema constant name: python member name}
ENUMS = {
    "FileFormat": {"Format_Undefined": "Undefined", "COFF": "COFF",
                   "ELF": "ELF", "PE": "PE", "IdaProDb32": "IdaProDb32",
                   "IdaProDb64": "IdaProDb64", "XCOFF": "XCOFF",
                   "MACHO": "MACHO", "RAW": "RAW"},
    "ISA": {"ISA_Undefined": "Undefined", "IA32": "IA32", "PPC32": "PPC32",
            "X64": "X64", "ARM": "ARM",
            "ValidButUnsupported": "ValidButUnsupported", "PPC64": "PPC64",
            "ARM64": "ARM64", "MIPS32": "MIPS32", "MIPS64": "MIPS64"},
    "ByteOrder": {"ByteOrder_Undefined": "Undefined", "BigEndian": "Big",
                  "LittleEndian": "Little"},
    "SectionFlag": {"Section_Undefined": "Undefined", "Readable": "Readable",
                    "Writable": "Writable", "Executable": "Executable",
                    "Loaded": "Loaded", "Initialized": "Initialized",
                    "ThreadLocal": "ThreadLocal"},
    "DecodeMode": {"All_Default": "Default", "ARM_Thumb": "Thumb"},
    "EdgeType": {"Type_Branch": "Branch", "Type_Call": "Call",
                 "Type_Fallthrough": "Fallthrough", "Type_Return": "Return",
                 "Type_Syscall": "Syscall", "Type_Sysret": "Sysret"},
    "SymAttribute": {n: n for n in (
        "GOT GOTPC GOTOFF GOTREL PLT PLTOFF PCREL SECREL TLS TLSGD TLSLD "
        "TLSLDM TLSCALL TLSDESC TPREL TPOFF DTPREL DTPOFF NTPOFF DTPMOD PAGE "
        "PAGEOFF CALL LO HI HIGHER HIGHEST GOTNTPOFF INDNTPOFF G0 G1 G2 G3 "
        "UPPER16 LOWER16 LO12 LO15 LO14 HI12 HI21 S PG NC ABS PREL PREL31 "
        "TARGET1 TARGET2 SBREL TLSLDO HI16 LO16 GPREL DISP OFST H L HA HIGH "
        "HIGHA HIGHERA HIGHESTA TOCBASE TOC NOTOC").split()},
}
PY2SCHEMA = {e: {py: sc for sc, py in tab.items()} for e, tab in
             ENUMS.items()}
# where the schema enum lives (module name, enum name)
SCHEMA_ENUM = {
    "FileFormat": "Module_pb2", "ISA": "Module_pb2",
    "ByteOrder": "Module_pb2", "SectionFlag": "Section_pb2",
    "DecodeMode": "CodeBlock_pb2", "EdgeType": "CFG_pb2",
    "SymAttribute": "SymbolicExpression_pb2",
}


def py_enum(gt, enum):
    return {
        "FileFormat": lambda: gt.Module.FileFormat,
        "ISA": lambda: gt.Module.ISA,
        "ByteOrder": lambda: gt.Module.ByteOrder,
        "SectionFlag": lambda: gt.Section.Flag,
        "DecodeMode": lambda: gt.CodeBlock.DecodeMode,
        "EdgeType": lambda: gt.Edge.Type,
        "SymAttribute": lambda: gt.SymbolicExpression.Attribute,
    }[enum]()


def pb(gt, modname):
    import importlib
    return importlib.import_module("gtirb.proto." + modname)


def schema_enum(gt, enum):
    return getattr(pb(gt, SCHEMA_ENUM[enum]), enum)


def schema_enum_numbers(gt, enum):
    return set(schema_enum(gt, enum).values())


def schema_number(gt, enum, py_member_name):
    """Schema number of the constant the contract pairs with this member."""
    return schema_enum(gt, enum).Value(PY2SCHEMA[enum][py_member_name])


def unmapped_schema_constants(gt):
    out = []
    for enum in ENUMS:
        for nm in schema_enum(gt, enum).keys():
            if nm not in ENUMS[enum]:
                out.append("%s.%s" % (enum, nm))
    return out


# ---- reflection between messages and data ---------------------------------
def msg_to_data(msg):
    from google.protobuf.descriptor import FieldDescriptor as FD
    out = {}
    for f in msg.DESCRIPTOR.fields:
        v = getattr(msg, f.name)
        is_map = (f.type == FD.TYPE_MESSAGE and
                  f.message_type.GetOptions().map_entry)
        if is_map:
            vf = f.message_type.fields_by_name["value"]
            d = {}
            for k, x in v.items():
                d[k] = msg_to_data(x) if vf.type == FD.TYPE_MESSAGE \
                    else scalar(vf, x)
            out[f.name] = d
        elif _repeated(f):
            if f.type == FD.TYPE_MESSAGE:
                out[f.name] = [msg_to_data(x) for x in v]
            else:
                out[f.name] = [scalar(f, x) for x in v]
        elif f.type == FD.TYPE_MESSAGE:
            if msg.HasField(f.name):
                out[f.name] = msg_to_data(v)
        elif f.containing_oneof is not None:
            if msg.HasField(f.name):
                out[f.name] = scalar(f, v)
        else:
            out[f.name] = scalar(f, v)
    return out


def _repeated(f):
    r = getattr(f, "is_repeated", None)
    if r is not None:
        return r if isinstance(r, bool) else r()
    from google.protobuf.descriptor import FieldDescriptor as FD
    return f.label == FD.LABEL_REPEATED


def scalar(f, v):
    from google.protobuf.descriptor import FieldDescriptor as FD
    if f.type == FD.TYPE_BYTES:
        return bytes(v).hex()
    return v


def data_to_msg(data, msg):
    """Fill message ``msg`` from data (inverse of msg_to_data)."""
    from google.protobuf.descriptor import FieldDescriptor as FD
    for name, v in data.items():
        f = msg.DESCRIPTOR.fields_by_name[name]
        is_map = (f.type == FD.TYPE_MESSAGE and
                  f.message_type.GetOptions().map_entry)
        tgt = getattr(msg, name) if (is_map or _repeated(f) or
                                     f.type == FD.TYPE_MESSAGE) else None
        if is_map:
            vf = f.message_type.fields_by_name["value"]
            for k, x in v.items():
                if vf.type == FD.TYPE_MESSAGE:
                    data_to_msg(x, tgt[k])
                    if not x:
                        tgt[k].SetInParent()
                else:
                    tgt[k] = unscalar(vf, x)
        elif _repeated(f):
            for x in v:
                if f.type == FD.TYPE_MESSAGE:
                    data_to_msg(x, tgt.add())
                else:
                    tgt.append(unscalar(f, x))
        elif f.type == FD.TYPE_MESSAGE:
            tgt.SetInParent()
            data_to_msg(v, tgt)
        else:
            setattr(msg, name, unscalar(f, v))
    return msg


def unscalar(f, v):
    from google.protobuf.descriptor import FieldDescriptor as FD
    if f.type == FD.TYPE_BYTES:
        return bytes.fromhex(v)
    return v


ORDERED_LISTS = {"modules"}  # every other repeated field serialises a set


def canon(d, field=None):
    """Order-insensitive canonical form of message data."""
    if isinstance(d, dict):
        return {str(k): canon(v, k) for k, v in sorted(
            d.items(), key=lambda kv: str(kv[0]))}
    if isinstance(d, list):
        items = [canon(x) for x in d]
        if field in ORDERED_LISTS:
            return items
        return sorted(items, key=lambda x: json.dumps(x, sort_keys=True))
    return d


UNMAPPED = set()


def general(path):
    import re
    return re.sub(r"\[\d+\]", "[]", path)


def diff(a, b, path="$", out=None, limit=8):
    """Paths where canonical data a (expected) and b (actual) differ."""
    out = [] if out is None else out
    if len(out) >= limit:
        return out
    if isinstance(a, dict) and isinstance(b, dict):
        for k in sorted(set(a) | set(b)):
            if k not in a:
                if b[k] in (0, False, "", [], {}) and \
                        not isinstance(b[k], float):
                    # schema field the contract has no row for, at its
                    # default value: reported, not judged
                    UNMAPPED.add(general(path) + "." + str(k))
                    continue
                out.append("%s.%s: unexpected (actual %r)" % (
                    path, k, _short(b[k])))
            elif k not in b:
                out.append("%s.%s: missing (expected %r)" % (
                    path, k, _short(a[k])))
            else:
                diff(a[k], b[k], "%s.%s" % (path, k), out, limit)
    elif isinstance(a, list) and isinstance(b, list):
        if len(a) != len(b):
            out.append("%s: %d items expected, %d actual" % (
                path, len(a), len(b)))
        else:
            for i, (x, y) in enumerate(zip(a, b)):
                diff(x, y, "%s[%d]" % (path, i), out, limit)
    elif a != b or isinstance(a, bool) != isinstance(b, bool):
        out.append("%s: expected %r, actual %r" % (path, _short(a),
                                                   _short(b)))
    return out


def _short(x):
    s = repr(x)
    return s if len(s) < 120 else s[:117] + "..."


# ---- the contract: spec -> expected IR message data -----------------------
def aux_data(aux, gt):
    """AuxData tables: type name verbatim; bytes = reference encoding of the
    value (set/map order is free, so bytes are compared after reference
    decoding - see compare_aux)."""
    return {k: {"type_name": a["type"], "data": ("pv", a["pv"])}
            for k, a in aux.items()}


def expected_message(spec, gt):
    def U(h):
        return h  # uuids are already 32-char hex = 16 bytes

    def num(enum, member):
        return schema_number(gt, enum, member)

    ir = {"uuid": U(spec["uuid"]), "version": spec["version"],
          "modules": [], "aux_data": aux_data(spec["aux"], gt)}
    vertices = []
    for m in spec["modules"]:
        md = {
            "uuid": U(m["uuid"]), "binary_path": m["binary_path"],
            "preferred_addr": m["preferred_addr"],
            "rebase_delta": m["rebase_delta"],
            "file_format": num("FileFormat", m["file_format"]),
            "isa": num("ISA", m["isa"]), "name": m["name"],
            "byte_order": num("ByteOrder", m["byte_order"]),
            "entry_point": U(m["entry_point"]) if m["entry_point"] else "",
            "aux_data": aux_data(m["aux"], gt),
            "proxies": [{"uuid": U(p["uuid"])} for p in m["proxies"]],
            "symbols": [], "sections": [],
        }
        vertices += [p["uuid"] for p in m["proxies"]]
        for y in m["symbols"]:
            yd = {"uuid": U(y["uuid"]), "name": y["name"],
                  "at_end": y["at_end"]}
            pay = y["payload"]
            if pay is not None and "value" in pay:
                yd["value"] = pay["value"]  # present even when 0
            elif pay is not None:
                yd["referent_uuid"] = U(pay["ref"])
            md["symbols"].append(yd)
        for s in m["sections"]:
            sd = {"uuid": U(s["uuid"]), "name": s["name"],
                  "section_flags": [num("SectionFlag", f) for f in s["flags"]],
                  "byte_intervals": []}
            for bi in s["intervals"]:
                bd = {"uuid": U(bi["uuid"]),
                      "has_address": bi["address"] is not None,
                      "address": bi["address"] or 0, "size": bi["size"],
                      "contents": bi["contents"], "blocks": [],
                      "symbolic_expressions": {}}
                for b in bi["blocks"]:
                    if b["kind"] == "code":
                        vertices.append(b["uuid"])
                        bd["blocks"].append({"offset": b["offset"], "code": {
                            "uuid": U(b["uuid"]), "size": b["size"],
                            "decode_mode": num("DecodeMode",
                                               b["decode_mode"])}})
                    else:
                        bd["blocks"].append({"offset": b["offset"], "data": {
                            "uuid": U(b["uuid"]), "size": b["size"]}})
                for off, e in bi["exprs"].items():
                    flags = [num("SymAttribute", a) if isinstance(a, str)
                             else a for a in e["attrs"]]
                    if e["kind"] == "const":
                        ed = {"addr_const": {"offset": e["offset"],
                                             "symbol_uuid": U(e["sym"])}}
                    else:
                        ed = {"addr_addr": {"scale": e["scale"],
                                            "offset": e["offset"],
                                            "symbol1_uuid": U(e["sym"]),
                                            "symbol2_uuid": U(e["sym2"])}}
                    ed["attribute_flags"] = flags
                    bd["symbolic_expressions"][int(off)] = ed
                sd["byte_intervals"].append(bd)
            md["sections"].append(sd)
        ir["modules"].append(md)
    edges = []
    for e in spec["edges"]:
        ed = {"source_uuid": U(e["src"]), "target_uuid": U(e["tgt"])}
        if e["label"] is not None:
            ed["label"] = {"conditional": e["label"]["conditional"],
                           "direct": e["label"]["direct"],
                           "type": num("EdgeType", e["label"]["type"])}
        edges.append(ed)
    ir["cfg"] = {"vertices": vertices, "edges": edges}
    return ir


def resolve_aux(data, decode):
    """Replace AuxData payloads on both sides by a comparable form:
    expected ("pv", json) -> normal form; actual hex -> reference-decoded
    normal form (or the raw hex if it does not decode)."""
    def fix(container):
        for k, a in container.get("aux_data", {}).items():
            a["data"] = decode(a["type_name"], a["data"])
    fix(data)
    for m in data.get("modules", []):
        fix(m)
    return data
