"""Parent-side C08 oracle 2: compile the repository's Java AuxData codecs
unchanged (plus java/Xcheck.java and a ByteString stub), run one JVM over all
cases the workers wrote, compare renderings, then let stage-2 workers decode
the Java re-encodings with the real Python decoder.

A missing/failing javac only disables this oracle (reported in evidence);
it never produces a violation or an inconclusive run by itself."""
import glob
import json
import os
import shutil
import subprocess
import tempfile

from . import build as gbuild, codecmon, refcodec

VERIF = os.path.dirname(os.path.dirname(os.path.abspath(__file__)))


def pre(params):
    d = tempfile.mkdtemp(prefix="gtmon-java-")
    params["java_dir"] = d
    return d


def post(m, env):
    d = env["params"].get("java_dir")
    info = {"status": "skipped"}
    m.setdefault("extra_coverage", {})["java_xcheck"] = info
    try:
        _post(m, env, d, info)
    except Exception as e:  # never let the optional oracle break the run
        info["status"] = "skipped: %s: %s" % (type(e).__name__, str(e)[:300])
    finally:
        shutil.rmtree(d, ignore_errors=True)


def _post(m, env, d, info):
    javac, java = shutil.which("javac"), shutil.which("java")
    if not javac or not java:
        info["status"] = "skipped: no javac/java"
        return
    lines = []
    for f in sorted(glob.glob(os.path.join(d, "w*.tsv"))):
        lines += [l for l in open(f, encoding="utf-8").read().split("\n") if l]
    if not lines:
        info["status"] = "skipped: workers wrote no Java-compatible case"
        return
    cls = os.path.join(d, "classes")
    os.makedirs(cls)
    src = os.path.join(gbuild.repo_dir(), "java")
    r = subprocess.run(
        [javac, "-nowarn", "-encoding", "UTF-8", "-d", cls, "-sourcepath",
         os.path.join(VERIF, "java") + os.pathsep + src,
         os.path.join(VERIF, "java", "Xcheck.java")],
        capture_output=True, text=True, timeout=600)
    if r.returncode != 0:
        info["status"] = "skipped: javac failed: " + r.stderr[-400:]
        return
    inp = "".join("%s\t%s\t%s\n" % tuple(l.split("\t")[:3]) for l in lines)
    r = subprocess.run([java, "-Xss64m", "-cp", cls, "Xcheck"],
                       input=inp.encode("utf-8"), capture_output=True,
                       timeout=1800)
    if r.returncode != 0:
        info["status"] = "skipped: JVM failed: " + \
            r.stderr.decode("utf-8", "replace")[-400:]
        return
    out = {}
    for l in r.stdout.decode("utf-8", "replace").split("\n"):
        f = l.split("\t")
        if len(f) >= 3:
            out[f[0]] = f
    info.update(status="ran", cases=len(lines), answered=len(out),
                java_decoded_ok=0, java_reencoded_ok=0)
    stage2 = []

    def viol(mech, what, detail):
        key = ("C08", mech)
        m["vcounts"]["C08|" + mech] += 1
        m["violations"].setdefault(key, {
            "property": "C08", "mechanism": mech, "what": what,
            "detail": detail})

    for l in lines:
        cid, tn, phex, want_json = l.split("\t")
        t = refcodec.parse(tn)
        want = refcodec.norm(codecmon.from_json(json.loads(want_json)))
        f = out.get(cid)
        det = {"case": cid, "type": tn, "python_bytes": phex[:600]}
        if f is None:
            viol("java:no-answer", "Java driver gave no answer for a case",
                 det)
            continue
        if f[1] != "OK":
            viol("java-cannot-decode-python-bytes:%s" % t[0],
                 "the Java codec fails on this API's bytes for a %s: %s"
                 % (tn, f[2][:150]), det)
            continue
        try:
            got = refcodec.norm(codecmon.from_json(json.loads(f[2])))
        except Exception as e:
            viol("java:unparsable-rendering", "cannot parse Java rendering: "
                 "%s" % e, dict(det, rendering=f[2][:300]))
            continue
        if got != want or f[4] != "0":
            viol("java-decodes-python-bytes-differently:%s" % t[0],
                 "the Java codec decodes this API's bytes for a %s to a "
                 "different value (or leaves %s bytes unread)" % (tn, f[4]),
                 dict(det, java=f[2][:600]))
            continue
        info["java_decoded_ok"] += 1
        # the Java re-encoding, read by the reference decoder
        try:
            jb = bytes.fromhex(f[3])
            n, pos = refcodec.decode(jb, t)
            ok = pos == len(jb) and refcodec.norm(n) == want
        except Exception:
            ok = False
        if not ok:
            viol("java-reencoding-off-format:%s" % t[0],
                 "the Java codec's re-encoding of a %s does not follow the "
                 "documented format" % tn, dict(det, java_bytes=f[3][:600]))
            continue
        info["java_reencoded_ok"] += 1
        stage2.append("%s\t%s\t%s\t%s\n" % (cid, tn, f[3], want_json))
    m["counters"]["java:decoded_ok"] += info["java_decoded_ok"]
    m["counters"]["java:reencoded_ok"] += info["java_reencoded_ok"]
    if stage2:
        p = os.path.join(d, "stage2.tsv")
        with open(p, "w", encoding="utf-8") as fh:
            fh.writelines(stage2)
        res = env["spawn"](dict(env["params"], java_stage2_file=p,
                                java_dir=None))
        m2 = env["merge"](res)
        info["stage2_python_decoded_java_bytes"] = \
            m2["counters"].get("java:stage2_decoded_by_python", 0)
        info["stage2_fatals"] = m2["fatals"]
        m["counters"]["java:stage2_decoded_by_python"] += \
            info["stage2_python_decoded_java_bytes"]
        for k, v in m2["violations"].items():
            m["violations"].setdefault(k, v)
        m["vcounts"].update(m2["vcounts"])
