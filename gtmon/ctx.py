"""Worker-side recording context shared by all property drivers.

A driver's ``run(ctx)`` iterates ``for case in ctx.cases(): ...``; each case
carries its own PRNG seeded from ``"<VERIF_SEED>:<prop>:<stream>:<index>"``
(string seeding: independent of PYTHONHASHSEED and of the number of workers),
so any case can be re-executed alone from (seed, index).
"""
import collections
import contextlib
import hashlib
import json
import random
import resource
import signal
import time
import traceback


def h64(obj):
    """Stable 64-bit hash of a JSON-able / repr-able object."""
    if not isinstance(obj, (bytes, bytearray)):
        obj = repr(obj).encode("utf-8", "surrogatepass")
    return hashlib.blake2b(obj, digest_size=8).hexdigest()


class Discrepancy(Exception):
    """Raised by oracles to abandon the current case with a violation."""

    def __init__(self, prop, mechanism, what, detail=None):
        super().__init__("%s %s: %s" % (prop, mechanism, what))
        self.prop = prop
        self.mechanism = mechanism
        self.what = what
        self.detail = detail or {}


class OpTimeout(Exception):
    """An operation of the code under test exceeded its CPU-time bound."""


def _on_timer(signum, frame):
    raise OpTimeout("CPU-time bound exceeded")


@contextlib.contextmanager
def op_guard(seconds=8.0):
    """Bound the user CPU time of one call into the code under test
    (ITIMER_VIRTUAL: counts this process's CPU time only, so a loaded
    machine cannot trip it)."""
    signal.signal(signal.SIGVTALRM, _on_timer)
    signal.setitimer(signal.ITIMER_VIRTUAL, seconds)
    try:
        yield
    finally:
        signal.setitimer(signal.ITIMER_VIRTUAL, 0)


class Case:
    def __init__(self, ctx, stream, index):
        self.ctx = ctx
        self.stream = stream
        self.index = index
        self.seed_str = "%d:%s:%s:%d" % (ctx.seed, ctx.prop, stream, index)
        self.rnd = random.Random(self.seed_str)
        self.ops = []  # recorded JSON-able history, if the driver records

    def ident(self):
        return {"seed": self.ctx.seed, "stream": self.stream,
                "index": self.index, "tier": self.ctx.tier}


class Ctx:
    MAX_MECHANISMS = 60
    MAX_SAMPLES = 4

    def __init__(self, prop, tier, seed, worker, nworkers, params=None):
        self.prop = prop
        self.tier = tier
        self.seed = seed
        self.worker = worker
        self.nworkers = nworkers
        self.params = params or {}
        self.counters = collections.Counter()
        self.hashes = collections.defaultdict(set)  # name -> set of h64
        self.samples = []
        self.violations = {}  # (prop, mechanism) -> record (first witness)
        self.violation_counts = collections.Counter()
        self.notes = set()
        self.inconclusive = []
        self.t0 = time.time()
        self.cpu_budget = None
        self.only_case = None  # (stream, index) when replaying
        self.timeouts = 0
        self.verbose = False

    # ---- recording -----------------------------------------------------
    def count(self, key, n=1):
        self.counters[key] += n

    MAX_HASHES = 150000  # per name and worker; beyond it only counted

    def seen(self, name, obj):
        """Record a distinct thing (state, case shape, path) under name.
        The set is capped so that thorough tiers stay within memory: once
        full, further items are only counted (``distinct_overflow:<name>``)
        and the reported distinct count is a lower bound."""
        hs = self.hashes[name]
        if len(hs) >= self.MAX_HASHES:
            self.counters["distinct_overflow:" + name] += 1
            return
        hs.add(obj if isinstance(obj, str) and len(obj) == 16
               else h64(obj))

    def sample(self, obj):
        if len(self.samples) < self.MAX_SAMPLES:
            self.samples.append(obj)

    def note(self, text):
        self.notes.add(text)

    def violation(self, prop, mechanism, what, case=None, detail=None):
        key = (prop, mechanism)
        self.violation_counts["%s|%s" % key] += 1
        if key in self.violations:
            return
        if len(self.violations) >= self.MAX_MECHANISMS:
            return
        rec = {"property": prop, "mechanism": mechanism, "what": what,
               "detail": detail or {}}
        if case is not None:
            rec["case"] = case.ident()
            if case.ops:
                rec["history"] = case.ops
        self.violations[key] = rec
        if self.verbose:
            print("DISCREPANCY", json.dumps(rec, default=repr)[:4000])

    # ---- case iteration ------------------------------------------------
    def cpu(self):
        r = resource.getrusage(resource.RUSAGE_SELF)
        return r.ru_utime + r.ru_stime

    def out_of_budget(self):
        return self.cpu_budget is not None and self.cpu() > self.cpu_budget

    def cases(self, stream, total):
        """Yield this worker's share of cases 0..total-1 of a stream."""
        if self.only_case is not None:
            if self.only_case[0] == stream:
                yield Case(self, stream, self.only_case[1])
            return
        for i in range(self.worker, total, self.nworkers):
            if self.timeouts >= 4:
                # every further case would cost another CPU-time bound and
                # the verdict is already decided
                self.count("cases_skipped_after_timeouts:" + stream)
                return
            if self.out_of_budget():
                self.count("cases_skipped_cpu_budget:" + stream)
                self.inconclusive.append(
                    "cpu budget exhausted in stream %s at case %d/%d"
                    % (stream, i, total))
                return
            yield Case(self, stream, i)

    def run_case(self, case, fn, default_prop=None):
        """Run fn(case); map Discrepancy / unexpected exceptions to
        violations.  Returns True if the case completed silently."""
        signal.signal(signal.SIGPROF, _on_timer)
        signal.setitimer(signal.ITIMER_PROF, self.params.get(
            "case_cpu_s", 120.0))
        try:
            fn(case)
            return True
        except Discrepancy as d:
            self.violation(d.prop, d.mechanism, d.what, case, d.detail)
        except RecursionError:
            raise
        except OpTimeout as e:
            self.timeouts += 1
            self.violation(default_prop or self.prop, "case-timeout",
                           "case exceeded its CPU-time bound (possible "
                           "hang): %s" % e, case,
                           {"traceback": traceback.format_exc()[-3000:]})
        except MemoryError:
            self.violation(default_prop or self.prop, "case-memory",
                           "case exhausted the worker's memory limit",
                           case, {})
        except Exception as e:  # harness or library blew up unexpectedly
            tb = traceback.format_exc()
            self.violation(
                default_prop or self.prop,
                "unexpected-exception:%s" % type(e).__name__,
                "unexpected %s: %s" % (type(e).__name__, str(e)[:200]),
                case, {"traceback": tb[-3000:]})
        finally:
            signal.setitimer(signal.ITIMER_PROF, 0)
        return False

    # ---- output --------------------------------------------------------
    def result(self):
        return {
            "worker": self.worker,
            "counters": dict(self.counters),
            "hashes": {k: sorted(v) for k, v in self.hashes.items()},
            "samples": self.samples,
            "violations": list(self.violations.values()),
            "violation_counts": dict(self.violation_counts),
            "notes": sorted(self.notes),
            "inconclusive": self.inconclusive,
            "cpu_s": round(self.cpu(), 2),
            "wall_s": round(time.time() - self.t0, 2),
        }
