"""Helpers around IR save/load and message-level comparison."""
import io
import re

from . import codecmon, contract, refcodec
from .ctx import op_guard


def save(ir):
    b = io.BytesIO()
    ir.save_protobuf_file(b)
    return b.getvalue()


def load(gt, raw, seconds=30.0):
    with op_guard(seconds):
        return gt.IR.load_protobuf_file(io.BytesIO(raw))


def save_via_path(ir, rnd):
    """save_protobuf(<path>) with a str or pathlib path; returns the bytes."""
    import os
    import pathlib
    import tempfile
    d = tempfile.mkdtemp(prefix="gtmon-io-")
    try:
        p = os.path.join(d, rnd.choice(["x.gtirb", "é x.gtirb"]))
        ir.save_protobuf(pathlib.Path(p) if rnd.random() < 0.5 else p)
        with open(p, "rb") as f:
            return f.read()
    finally:
        import shutil
        shutil.rmtree(d, ignore_errors=True)


def load_via_path(gt, raw, rnd):
    import os
    import pathlib
    import shutil
    import tempfile
    d = tempfile.mkdtemp(prefix="gtmon-io-")
    try:
        p = os.path.join(d, "y.gtirb")
        with open(p, "wb") as f:
            f.write(raw)
        with op_guard(30.0):
            return gt.IR.load_protobuf(pathlib.Path(p) if rnd.random() < 0.5
                                       else p)
    finally:
        shutil.rmtree(d, ignore_errors=True)


def parse_ir_message(gt, raw):
    """Parse bytes after the 8-byte header with the freshly generated
    classes (not with the library's reader)."""
    m = contract.pb(gt, "IR_pb2").IR()
    m.ParseFromString(raw[8:])
    return m


def aux_decoder(type_name, payload):
    """Comparable form of an AuxData payload: expected ('pv', json) or the
    actual hex bytes -> reference-decoded normal form."""
    if isinstance(payload, (tuple, list)) and payload and payload[0] == "pv":
        return ["value", codecmon.to_json(refcodec.norm(
            codecmon.from_json(payload[1])))]
    try:
        t = refcodec.parse(type_name)
        raw = bytes.fromhex(payload)
        n, pos = refcodec.decode(raw, t)
        if pos != len(raw):
            return ["undecodable-trailing-bytes", payload]
        return ["value", codecmon.to_json(refcodec.norm(n))]
    except Exception:
        return ["raw", payload]


def message_data(gt, raw):
    d = contract.msg_to_data(parse_ir_message(gt, raw))
    return contract.canon(contract.resolve_aux(d, aux_decoder))


_idx = re.compile(r"\[\d+\]")
_key = re.compile(r"\.(?:[0-9a-f]{32}|\d+)(?=[.\[:]|$)")


def general_path(p):
    """'$.modules[1].sections[0].name: expected ..' -> '$.modules[].sections[].name'"""
    p = p.split(":")[0]
    return _key.sub(".{}", _idx.sub("[]", p))
