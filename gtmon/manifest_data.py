"""Texts for MANIFEST.json (see tools/gen_manifest.py)."""
HOOK_COMMITS = []
NOTES = ("Technique family: runtime monitoring. Every check builds an importable copy of /repo's working tree "
         "(python/gtirb + rendered version.py + proto/*.proto compiled by gtmon/miniprotoc.py) in a temp dir, runs the "
         "real code in worker subprocesses under generated hostile workloads, and decides with an executable oracle. "
         "The pinned pytest suite imports the gtirb wheel from site-packages, not the working tree, so it cannot see "
         "edits under /repo/python or /repo/proto at all. Exit 0 held / 1 VIOLATION / 2 INCONCLUSIVE. "
         "VERIF_SEED and VERIF_TIER are honoured; GTIRB_REPO overrides /repo for mutant self-tests.")
ENGINES = [
    {"name": "gtmon", "path": "gtmon/", "serves_properties": [], "kind_free_text":
     "Python runtime-monitoring framework: working-tree build, seeded workload engines, reference models/oracles, "
     "evidence writer, known-findings classifier"},
]
CHECKS = {
    "C15": {
        "technique": "differential runtime monitor: real parser vs independent iterative recogniser, complete enumeration of short strings + generated names and near-miss mutants",
        "text": "Held on every string over {a,b,<,>,','} up to length 8 (quick) / 10 (thorough), enumerated completely, and on generated names (depth<=60, <=120 siblings) with their single-token mutants: accept/reject, tree shape, print-back and the exception type all agree with the reference recogniser, also through the public encode/decode entry points. Exploration level: longer strings are sampled, not enumerated.",
        "design_ref": "DESIGN.md section 5 C15",
        "note": "Trusts gtmon/reftypes.py (40-line iterative recogniser) as the statement of the grammar; inputs bounded below CPython's recursion limit.",
    },
}
