"""Texts for MANIFEST.json (see tools/gen_manifest.py)."""
HOOK_COMMITS = []
NOTES = ("Technique family: runtime monitoring. Every check builds an importable copy of /repo's working tree "
         "(python/gtirb + rendered version.py + proto/*.proto compiled by gtmon/miniprotoc.py) in a temp dir, runs the "
         "real code in worker subprocesses under generated hostile workloads, and decides with an executable oracle. "
         "The pinned pytest suite imports the gtirb wheel from site-packages, not the working tree, so it cannot see "
         "edits under /repo/python or /repo/proto at all. Exit 0 held / 1 VIOLATION / 2 INCONCLUSIVE. "
         "VERIF_SEED and VERIF_TIER are honoured; GTIRB_REPO overrides /repo for mutant self-tests.")
ENGINES = [
    {"name": "gtmon", "path": "gtmon/", "serves_properties": [], "kind_free_text":
     "Python runtime-monitoring framework: working-tree build, seeded workload engines, reference models/oracles, "
     "evidence writer, known-findings classifier"},
]
CHECKS = {
    "C01": {
        "technique": "runtime monitor with reference model: generated specs built through the public API under random construction strategies, snapshot-equality oracle across save/load generations, deep_eq both ways, message-level re-save comparison",
        "text": "Held on every generated self-contained IR of this run (0-3 modules, all boundary classes of the quantifier tracked as a checklist in evidence, ~50 construction routes): loaded == saved by canonical snapshot of public attributes incl. decoded AuxData, deep_eq both directions, re-saved file equal as a normalised message, up to 3 generations. Exploration: sizes bounded (<=9 children per collection), so size-dependent defects are out of reach.",
        "design_ref": "DESIGN.md section 5 C01",
        "note": "Trusts gtmon/irbuild.snapshot (public attributes only) as the meaning of observable content, the mini-protoc build of the schema, and the protobuf runtime.",
    },
    "C02": {
        "technique": "runtime monitor against an independent contract table: written bytes parsed with generated classes and compared field by field; foreign messages assembled by descriptor reflection and loaded; both protobuf backends in separate processes, cross-read",
        "text": "Each direction judged on its own against gtmon/contract.py: writer (header bytes, has_address, payload one-of, enum numbers by schema constant name, flags, label presence, vertices = all CFG nodes, 16-byte UUIDs) and reader (messages never produced by the Python writer: has_address=false with address set, shuffled repeated fields, duplicate flags, arbitrary vertices, all-default label, unset one-ofs); every enum constant of the table is swept deterministically; upb and pure-Python backends, files of one read by the other.",
        "design_ref": "DESIGN.md section 5 C02",
        "note": "Trusts the hand-written contract table and the protobuf runtimes; references stay inside their module.",
    },
    "C07": {
        "technique": "runtime monitor on Serialization.encode/decode: generated (type tree, value) pairs, normal-form equality with independent float32 rounding, container-class and node-identity checks, consumption observed by embedding before a sentinel / between neighbours, save/load cycle of AuxData",
        "text": "Held on ~60k generated values per quick run over all 20 codec names nested to depth 4: integer bounds of every width, multi-byte/NUL/delimiter strings, NaN/inf/-0.0/subnormals, empty and nested containers, every variant alternative, UUID/Offset naming attached, detached and unknown nodes; decoder consumption checked through sentinels. Exploration of an infinite input space.",
        "design_ref": "DESIGN.md section 5 C07",
        "note": "Value domain = values representable in this API's decoded form (hashable set elements/map keys without NaN, 'float' inside binary32 range); binary32 reference is ctypes.c_float.",
    },
    "C08": {
        "technique": "differential runtime monitor: API encoder vs independent reference encoder byte for byte, reference decoder on API bytes, API decoder on foreign (reordered) bytes, and the repository's own Java codecs compiled unchanged and driven in a JVM (decode, re-encode, decode back in Python)",
        "text": "Held on ~48k generated values per quick run: bytes identical to gtmon/refcodec.py (written from the format comment), foreign element orders decode to the same value, and for the Java-supported subset (~80% of cases) the Java codec decodes the API's bytes to the same value with nothing left over and its re-encoding decodes back in Python.",
        "design_ref": "DESIGN.md section 5 C08",
        "note": "Trusts gtmon/refcodec.py as the statement of the documented format; Java cross-check is skipped (and said so in evidence) if javac/java are unusable; C++/Lisp implementations cannot be built here.",
    },
    "C09": {
        "technique": "runtime monitor on loaded IRs: identity ('is') of every reference against objects found by walking the containment tree; negative files with one dangling/ill-typed reference must raise DeserializationError",
        "text": "Held on every reference of every loaded IR of this run (symbol referents, entry points, edge endpoints incl. block edge views, expression symbols, AuxData UUID/Offset entries at IR and module level read right after load), for files written by the API and for foreign messages; all 7 reference kinds x {missing, each wrong node kind} rejected with DeserializationError (52 shapes seen per quick run).",
        "design_ref": "DESIGN.md section 5 C09",
        "note": "Negatives use well-formed 16-byte UUIDs; references stay inside their module.",
    },
    "C17": {
        "technique": "fault enumeration at the loader boundary: every truncation, every single-bit flip of small seed files (sampled above), byte substitutions, 8x256 header bytes, header/version rules, structural faults by message editing; coherence oracle (world check, typed references, re-save) on every returned IR; CPU-time bound per load",
        "text": "Per seed file every cut point and every header byte value are enumerated completely, bit flips completely up to the size bound; ~125k fault cases per quick run. Every accepted file's IR passes the C03/C04/C10 world check, has typed references, stored bytes <= size and saves again; header faults always raise ValueError; no load exceeded the CPU bound.",
        "design_ref": "DESIGN.md section 5 C17",
        "note": "'Never hangs' is decided as returns/raises within 30 s CPU for files <= 64 KiB; multi-byte corruptions are only sampled through structural faults.",
    },
    "C18": {
        "technique": "runtime monitor with spec-equality oracle: independently constructed equal IRs (or via save/load) and a perturbation catalogue generated from the spec structure; deep_eq judged in both directions at IR and node level",
        "text": "Held on ~480 equal pairs and ~6000 perturbed pairs per quick run covering 76 perturbation labels (every scalar of every node kind, child/edge/expression/flag/attribute/AuxData-key add and remove, every UUID, payload kind, block kind with UUID kept): expected = specs equal modulo AuxData values; symmetry and reflexivity checked on every call pair.",
        "design_ref": "DESIGN.md section 5 C18",
        "note": "Module order is treated as not compared; only unreferenced nodes are removed so specs stay self-contained.",
    },
    "C15": {
        "technique": "differential runtime monitor: real parser vs independent iterative recogniser, complete enumeration of short strings + generated names and near-miss mutants",
        "text": "Held on every string over {a,b,<,>,','} up to length 8 (quick) / 10 (thorough), enumerated completely, and on generated names (depth<=60, <=120 siblings) with their single-token mutants: accept/reject, tree shape, print-back and the exception type all agree with the reference recogniser, also through the public encode/decode entry points. Exploration level: longer strings are sampled, not enumerated.",
        "design_ref": "DESIGN.md section 5 C15",
        "note": "Trusts gtmon/reftypes.py (40-line iterative recogniser) as the statement of the grammar; inputs bounded below CPython's recursion limit.",
    },
}
