"""Texts for MANIFEST.json (see tools/gen_manifest.py)."""
HOOK_COMMITS = []
NOTES = ("Technique family: runtime monitoring. Every check builds an importable copy of /repo's working tree "
         "(python/gtirb + rendered version.py + proto/*.proto compiled by gtmon/miniprotoc.py) in a temp dir, runs the "
         "real code in worker subprocesses under generated hostile workloads, and decides with an executable oracle. "
         "The pinned pytest suite imports the gtirb wheel from site-packages, not the working tree, so it cannot see "
         "edits under /repo/python or /repo/proto at all. Exit 0 held / 1 VIOLATION / 2 INCONCLUSIVE. "
         "VERIF_SEED and VERIF_TIER are honoured; GTIRB_REPO overrides /repo for mutant self-tests.")
ENGINES = [
    {"name": "gtmon-core", "path": "gtmon/runner.py", "serves_properties": ["C%02d" % i for i in range(1, 20)], "kind_free_text":
     "working-tree build (gtmon/build.py + mini-protoc), worker fan-out, CPU-time guards, merge, known-findings classifier, evidence writer, replay"},
    {"name": "spec-engine", "path": "gtmon/spec.py", "serves_properties": ["C01", "C02", "C09", "C17", "C18"], "kind_free_text":
     "pure-data IR specs, public-API builder with random construction routes, canonical snapshot, interchange contract table, foreign-message assembly, perturbation catalogue"},
    {"name": "ownership-engine", "path": "gtmon/ownership.py", "serves_properties": ["C03", "C04", "C10", "C16"], "kind_free_text":
     "lock-step forest/attribute model over several IRs with a world observer (gtmon/world.py) after every public operation; built-in list/set/dict mirrors (gtmon/mapping_engine.py)"},
    {"name": "layout-engine", "path": "gtmon/layout.py", "serves_properties": ["C05", "C06", "C12", "C13"], "kind_free_text":
     "pure-data layout model, scan oracles with must<=got<=may sandwich, probes through every lookup at every scope, replica comparison under lookup schedules, lazy-tree path classification"},
    {"name": "codec-engine", "path": "gtmon/codecmon.py", "serves_properties": ["C07", "C08", "C14", "C15"], "kind_free_text":
     "AuxData type/value generators, independent reference codec and type-name recogniser, Java cross-check driver (java/Xcheck.java)"},
    {"name": "selftest", "path": "tools/selftest", "serves_properties": ["C%02d" % i for i in range(1, 20)], "kind_free_text":
     "sensitivity / false-alarm self-validation: ~100 mutants must be caught, 17 behaviour-preserving refactorings must stay silent, 133 independently seeded changes from seven rounds of sub-agents under seeded/ (tools/seed_matrix)"},
]
CHECKS = {
    "C03": {
        "technique": "runtime monitor with forest model: long random histories of public attach/detach/move operations over 2-5 IRs; get_by_uuid compared with a reachability scan for every node of the universe after every operation",
        "text": "Held after every one of ~25k operations per quick run (480 histories, ~250 distinct operation kinds incl. set/list mixins with plain / owning-collection / self operands and one-shot iterators, constructors stealing children or another parent's live collection, ping-pong moves, one bulk call of up to 66 nodes, subtree moves between IRs, save->load joining the world with UUID twins): every attached node is found, every detached/moved-away node and fresh UUID gives None, in every live IR.",
        "design_ref": "DESIGN.md section 5 C03",
        "note": "Operations that would attach two nodes with one UUID to one IR are skipped (the property's precondition); worlds are small (20-60 nodes).",
    },
    "C04": {
        "technique": "runtime monitor with forest + attribute model (invariant checks at quiescent points after every public operation) and a default-argument/shared-argument isolation probe",
        "text": "After every operation: parent attribute <-> collection membership from both ends, no duplicates, derived accessors .ir/.module/.section, every aggregate iterator each element once, every tracked attribute of every node equals the model (so no node is affected by an operation that does not name it); isolation probe over 14 constructor/mutable-attribute pairs with default arguments and with one argument object given to two constructors.",
        "design_ref": "DESIGN.md section 5 C04",
        "note": "Checked only between public operations; private state is never read.",
    },
    "C05": {
        "technique": "runtime monitor with scan oracle: layout edit histories, all 18 interval-scope and 18 section/module/IR-scope block lookups probed at check points with queries built from every critical coordinate +-1, sandwich comparison must<=got<=may",
        "text": "Held on ~1.5M lookup comparisons per quick run (320 histories, tiny coordinate space so overlaps/equal offsets/zero sizes are the norm, siblings with identical coordinates, every 4th history around 2^63/2^64-1 incl. sums beyond 2^64, 8% 'medium' worlds with tens of members per container, points, ranges with steps 1,2,3,7, empty and reversed ranges, complete point sweep at the end, lookup schedules dense/sparse/rare/end-only, bursts and toggles aimed at one container, save->load->continue): no duplicate, nothing outside the scan, nothing the scan demands missing; kind variants equal the kind filter. Thorough adds worlds with hundreds of blocks. Failing histories are minimised by delta debugging.",
        "design_ref": "DESIGN.md section 5 C05",
        "note": "'on' with step>1 and blocks outside their interval's extent are judged by the sandwich, as the property allows.",
    },
    "C06": {
        "technique": "runtime monitor with scan oracle: interval-heavy layout histories; byte_intervals_on/at, sections_on/at and Section.address/size compared with a scan after every operation / at check points",
        "text": "Section extents are compared after every operation in all four classes (empty, some unaddressed, single, all addressed); interval and section lookups at section/module/IR scope with the C05 query generator, including None<->address flips, coinciding and empty intervals, far regime at 0 and near 2^64.",
        "design_ref": "DESIGN.md section 5 C06",
        "note": "As C05.",
    },
    "C10": {
        "technique": "runtime monitor with forest model: symbol-heavy ownership histories; symbols_named over a small name alphabet and Block.references for every block compared with a scan after every operation",
        "text": "Renames (to '' and shared names), payload switches among block/0/int/None through referent=, value= and the constructor (all transition classes counted), symbol and block moves between modules/IRs from both ends, load; each result must equal the scan, each symbol once.",
        "design_ref": "DESIGN.md section 5 C10",
        "note": "As C03.",
    },
    "C11": {
        "technique": "lock-step runtime monitor: CFG operations mirrored on a dict keyed by (id(source), id(target), label); membership, len, iteration, out/in_edges of every node and block edge views compared after every operation",
        "text": "Held after each of ~45k operations per quick run on two CFGs (add/discard/remove/pop/clear/update/|=/&=/-=/^=, binary operators and comparisons, node moves between IRs), with parallel edges, self-loops, labels None vs all-false vs default, equal-by-value label objects, detached nodes.",
        "design_ref": "DESIGN.md section 5 C11",
        "note": "Block views are compared with the CFG of the IR the block is attached to.",
    },
    "C12": {
        "technique": "replica comparison under different lookup schedules (none / every step / bursts / threshold-targeted / twice) of one edit history, identical complete final probe and common probes at sync points inside the history (the looking replicas must agree mid-history too); diagnostic hook classifies the lazy-index maintenance path taken",
        "text": "420 histories x 5 schedules per quick run plus a scale stream (one container with 40/300/1100/2100 members, thorough up to 4200, three schedules); every final answer (all C05/C06/C13 lookups + section extents) identical across schedules, and at >= 1 sync point per history the four replicas that may look answer one common probe identically (about 1 200 sync points, 2.3 M answers per quick run). Evidence shows first-use, incremental-replay and rebuild paths and pending<,=,> size relations all observed on both tree kinds (non-empty collections only).",
        "design_ref": "DESIGN.md section 5 C12",
        "note": "Schedules are placements of lookups inside a deterministic history, explored by construction, not by a scheduler; path counters rely on a wrapper around a private method (evidence only, but required for 'held').",
    },
    "C13": {
        "technique": "runtime monitor with scan oracle + store mirror: mapping-heavy layout histories; interval scope compared as ordered identity triples, wider scopes as multiset sandwich; mapping operations mirrored on a dict",
        "text": "All mapping operations of the quantifier (item set/replace/delete, pop, popitem, setdefault, update, clear, whole-mapping assignment from dict / pairs / another interval's mapping), address changes and moves; ordered equality at interval scope incl. nothing for unaddressed intervals.",
        "design_ref": "DESIGN.md section 5 C13",
        "note": "Assigning an interval's own mapping back to it is not generated (outside the listed properties).",
    },
    "C14": {
        "technique": "runtime monitor over save with per-table history classes: files assembled as raw messages, tables left/read/mutated/assigned/renamed over up to 4 generations, written (type_name, bytes) parsed with generated classes and compared with the class's demand using the reference codec",
        "text": "~70k table checks per quick run: untouched tables (known, unknown, partially unknown, non-canonical incl. duplicate set/map entries, bool bytes other than 0/1, trailing bytes) byte-identical; touched supported tables equal both the reference encoding of the current value under the current type name and an independent harness-side model of the value through the table's history (so shared or stale state cannot hide behind the implementation's own .data); byte-identical twin tables in one IR; unknown-typed tables byte-identical even after being read.",
        "design_ref": "DESIGN.md section 5 C14",
        "note": "New type names are compatible widenings; unknown-typed tables are only left or read.",
    },
    "C16": {
        "technique": "lock-step runtime monitor against the built-in list/set/dict on the same elements (return value, exception type, resulting contents modulo move-instead-of-duplicate) + world check after every call, also after calls that raise",
        "text": "MutableSequence on ir.modules (incl. extended slices, reverse, +=, index with bounds, self re-insertion, arguments as list/tuple/one-shot iterators/another IR's live list), MutableSet on the five node sets (binary operators both ways, comparisons, update with 0-2 iterables, in-place operators with plain sets, other owning collections and the collection itself, other-kind nodes as non-members), MutableMapping on symbolic_expressions (views kept across operations, ==, popitem, setdefault, whole-mapping assignment); world check after every call, also after calls that raise; ~260 operation kinds per quick run.",
        "design_ref": "DESIGN.md section 5 C16",
        "note": "Same-list re-insertion (and a value given twice in one call) judged by the weak contract stated in DESIGN.md.",
    },
    "C19": {
        "technique": "runtime monitor with reference model (bytearray + integer) over size/initialized_size/contents histories; arithmetic oracles for block views at all critical coordinates; save->load after steps; constructor/loader negatives",
        "text": "After every step initialized_size == len(contents) <= size and contents equal the model (pad with zeros, truncate, truncate on size shrink); the IR saves and loads back; block address/contents/contains_offset/contains_address equal their definitions for blocks inside, straddling and beyond the stored bytes, incl. near 2^64.",
        "design_ref": "DESIGN.md section 5 C19",
        "note": "initialized_size and content assignments stay <= size, as the quantifier says.",
    },
    "C01": {
        "technique": "runtime monitor with reference model: generated specs built through the public API under random construction strategies, snapshot-equality oracle across save/load generations, deep_eq both ways, message-level re-save comparison",
        "text": "Held on every generated self-contained IR of this run (0-3 modules, all boundary classes of the quantifier tracked as a checklist in evidence, ~50 construction routes, label twins None/all-default/one-flag between the same endpoints): loaded == saved by canonical snapshot of public attributes incl. decoded AuxData, deep_eq both directions, re-saved file equal as a normalised message, up to 3 generations; half of the IRs are then edited after the first save (public attributes, AuxData containers through references the caller kept) and the second save must describe the edited IR; stream- and path-based save/load. Thorough adds IRs with thousands of nodes and the pure-Python protobuf backend. Exploration: structure sizes are bounded.",
        "design_ref": "DESIGN.md section 5 C01",
        "note": "Trusts gtmon/irbuild.snapshot (public attributes only) as the meaning of observable content, the mini-protoc build of the schema, and the protobuf runtime.",
    },
    "C02": {
        "technique": "runtime monitor against an independent contract table: written bytes parsed with generated classes and compared field by field; foreign messages assembled by descriptor reflection and loaded; both protobuf backends in separate processes, cross-read",
        "text": "Each direction judged on its own against gtmon/contract.py: writer (header bytes, has_address, payload one-of, enum numbers by schema constant name, flags, label presence, vertices = all CFG nodes, 16-byte UUIDs) and reader (messages never produced by the Python writer: has_address=false with address set, shuffled repeated fields, duplicate flags, arbitrary vertices, all-default label, unset one-ofs); every enum constant of the table is swept deterministically; upb and pure-Python backends, files of one read by the other.",
        "design_ref": "DESIGN.md section 5 C02",
        "note": "Trusts the hand-written contract table and the protobuf runtimes; references stay inside their module.",
    },
    "C07": {
        "technique": "runtime monitor on Serialization.encode/decode: generated (type tree, value) pairs, normal-form equality with independent float32 rounding, container-class and node-identity checks, consumption observed by embedding before a sentinel / between neighbours, save/load cycle of AuxData",
        "text": "Held on ~60k generated values per quick run over all 20 codec names nested to depth 4: integer bounds of every width, multi-byte/NUL/delimiter strings, NaN/inf/-0.0/subnormals, empty and nested containers, every variant alternative, UUID/Offset naming attached, detached and unknown nodes; decoder consumption checked through sentinels. Exploration of an infinite input space.",
        "design_ref": "DESIGN.md section 5 C07",
        "note": "Value domain = values representable in this API's decoded form (hashable set elements/map keys without NaN, 'float' inside binary32 range); binary32 reference is ctypes.c_float.",
    },
    "C08": {
        "technique": "differential runtime monitor: API encoder vs independent reference encoder byte for byte, reference decoder on API bytes, API decoder on foreign (reordered) bytes, and the repository's own Java codecs compiled unchanged and driven in a JVM (decode, re-encode, decode back in Python)",
        "text": "Held on ~48k generated values per quick run: bytes identical to gtmon/refcodec.py (written from the format comment), foreign element orders decode to the same value, and for the Java-supported subset (~80% of cases) the Java codec decodes the API's bytes to the same value with nothing left over and its re-encoding decodes back in Python.",
        "design_ref": "DESIGN.md section 5 C08",
        "note": "Trusts gtmon/refcodec.py as the statement of the documented format; Java cross-check is skipped (and said so in evidence) if javac/java are unusable; C++/Lisp implementations cannot be built here.",
    },
    "C09": {
        "technique": "runtime monitor on loaded IRs: identity ('is') of every reference against objects found by walking the containment tree; negative files with one dangling/ill-typed reference must raise DeserializationError",
        "text": "Held on every reference of every loaded IR of this run (symbol referents, entry points, edge endpoints incl. block edge views, expression symbols, AuxData UUID/Offset entries at IR and module level read right after load), for files written by the API and for foreign messages; all 7 reference kinds x {missing, each wrong node kind} rejected with DeserializationError (52 shapes seen per quick run).",
        "design_ref": "DESIGN.md section 5 C09",
        "note": "Negatives use well-formed 16-byte UUIDs; references stay inside their module.",
    },
    "C17": {
        "technique": "fault enumeration at the loader boundary: every truncation, every single-bit flip of small seed files (sampled above), byte substitutions, 8x256 header bytes, header/version rules, structural faults by message editing; coherence oracle (world check, typed references, re-save) on every returned IR; CPU-time bound per load",
        "text": "Per seed file every cut point and every header byte value are enumerated completely, bit flips completely up to the size bound, plus byte substitutions, multi-byte splices and structural faults by message editing (dangling/ill-typed references, any two nodes sharing a UUID, one UUID used three times across modules, two faults at once, unknown enum numbers, wrong-length UUIDs, empty one-ofs, contents longer than size); ~126k fault cases per quick run, ~11M thorough. Every accepted file's IR passes the C03/C04/C10 world check, has typed references, stored bytes <= size and saves again; header faults always raise ValueError; no load exceeded the CPU bound.",
        "design_ref": "DESIGN.md section 5 C17",
        "note": "'Never hangs' is decided as returns/raises within 30 s CPU for files <= 64 KiB; multi-byte corruptions are only sampled through structural faults.",
    },
    "C18": {
        "technique": "runtime monitor with spec-equality oracle: independently constructed equal IRs (or via save/load) and a perturbation catalogue generated from the spec structure; deep_eq judged in both directions at IR and node level",
        "text": "Held on ~480 equal pairs and ~6000 perturbed pairs per quick run covering 76 perturbation labels (every scalar of every node kind, child/edge/expression/flag/attribute/AuxData-key add and remove, every UUID, payload kind, block kind with UUID kept): expected = specs equal modulo AuxData values; symmetry and reflexivity checked on every call pair.",
        "design_ref": "DESIGN.md section 5 C18",
        "note": "Module order is treated as not compared; only unreferenced nodes are removed so specs stay self-contained.",
    },
    "C15": {
        "technique": "differential runtime monitor: real parser vs independent iterative recogniser, complete enumeration of short strings + generated names and near-miss mutants",
        "text": "Held on every string over {a,b,<,>,','} up to length 8 (quick) / 10 (thorough), enumerated completely, and on generated names (depth<=60, <=120 siblings; combs of 200-340 plain names after parameterised ones; 200-300 bracket pairs in one name; names made of formatting and regex metacharacters) with their single-token mutants: accept/reject, tree shape, print-back and the exception type all agree with the reference recogniser, also through the public encode/decode entry points. Exploration level: longer strings are sampled, not enumerated.",
        "design_ref": "DESIGN.md section 5 C15",
        "note": "Trusts gtmon/reftypes.py (40-line iterative recogniser) as the statement of the grammar; inputs bounded below CPython's recursion limit.",
    },
}


ADDENDA = {'C01': ' Live edits (also applied to the IR as loaded) include symbol payload switches, entry-point changes and a node taken out, given another UUID and put back; entry points may name blocks of other modules (earlier or later, shared between modules); long homogeneous AuxData tables around power-of-two lengths.', 'C02': ' The writer is judged again after live edits of the constructed IR and of the IR as loaded from its own file.', 'C03': ' Also: slice assignments replacing modules by their twins from another load, parentless nodes given another UUID, twin-of-member operands, and as the last step of a quarter of the histories a block of inexpressible size put into an interval (alone or in a batch), accepted or refused.', 'C05': ' Also: int-subclass query points, intervals that store bytes and are cut below them, refused block batches, a many-sections regime, and a terminal twin-UUID attach that may be refused.', 'C07': ' Also: a private Serialization instance customised for the whole run; late-read histories (tables first read after IR edits, entries judged against the IR as it is then); table-level round trips with in-place edits inside tuples and variants.', 'C08': ' Also: a private Serialization instance customised for the whole run, and a table path (AuxData object -> save -> written bytes decoded by the reference codec) over 2-4 saves with in-place edits through a kept reference.', 'C09': ' Every reference the file names must be present as that object (dropped references are violations); late-read histories as in C07.', 'C11': ' Also: dense worlds drawing all 25 expressible labels on two nodes with a saturate operation, an IR constructed from another CFG (object, set, list, iterator) modelled as an independent copy, unattached endpoints given another UUID.', 'C14': " Also: type names spelled with blanks after commas (unknown names over meaningful bytes), failed saves (10 poison recipes) followed by the judged save, in-place edits inside tuples and variants, a customised private Serialization instance; the set of unknown names is read from the API's public codec table.", 'C16': ' Also: index arguments that are no index / index-like objects / beyond ssize_t, batches with an element that cannot be a member, iterators held across edits (list: exact, both directions; sets: an operation that changes nothing must not disturb a running iteration, incl. re-adding members through every route after churn), update() with the collection itself among its arguments, slice assignments whose values come from the assigned slots.', 'C18': " Also: containment-only perturbations (move / exchange of children between parents), one field's values exchanged between two siblings, exchanged expression operands, comparisons repeated on the same objects after live edits, and a detached interval whose block gets another UUID in place.", 'C19': " Also: long histories (size 2^21) growing and cutting stored bytes by 2^8, 2^12, 2^16, 2^20 (+-1), and the bytes returned by block.contents are scribbled on (no block's or interval's contents may change)."}
for _k, _v in ADDENDA.items():
    CHECKS[_k]["text"] = CHECKS[_k]["text"] + _v
