"""Specs: pure-data descriptions of self-contained IRs (C01, C02, C09, C17,
C18).  UUIDs are 32-char hex strings, enum values are *Python member names*
(see contract.ENUMS), bytes are hex, AuxData values are refcodec neutral
forms rendered to JSON (codecmon.to_json).
"""
import copy
import uuid as _uuid

from . import auxgen, codecmon, contract, refcodec, reftypes

U64 = (1 << 64) - 1
I64_MIN, I64_MAX = -(1 << 63), (1 << 63) - 1
NAMES = ["", "a", ".text", "main", "é", "日本", "a\x00b", "x<y>,",
         "😀", " ", "foo", "foo", "bar"]


def u64(rnd):
    return rnd.choice([0, 0, 1, 1 << 63, U64, U64 - 1, rnd.randint(0, U64),
                       rnd.randint(0, 100), rnd.randint(0, 100)])


def i64(rnd):
    return rnd.choice([0, -1, 1, I64_MIN, I64_MAX,
                       rnd.randint(I64_MIN, I64_MAX), rnd.randint(-50, 50)])


def name(rnd):
    return rnd.choice(NAMES)


class UuidSource:
    def __init__(self, rnd):
        self.rnd = rnd
        self.used = set()

    def new(self):
        while True:
            k = self.rnd.random()
            if k < 0.02:
                u = "0" * 32
            elif k < 0.04:
                u = "f" * 32
            else:
                u = "%032x" % self.rnd.getrandbits(128)
            if u not in self.used:
                self.used.add(u)
                return u


class SpecPool:
    """auxgen pool over the spec's own node UUIDs (as uuid.UUID values)."""

    def __init__(self, gt, node_uuids, rnd):
        self.gt = gt
        self.nodes = [_uuid.UUID(hex=u) for u in node_uuids]
        self.rnd = rnd

    def pick(self, rnd):
        if self.nodes and rnd.random() < 0.7:
            return rnd.choice(self.nodes)
        return _uuid.UUID(int=rnd.getrandbits(128))


def gen_aux(rnd, gt, node_uuids, n):
    pool = SpecPool(gt, node_uuids, rnd)
    out = {}
    for i in range(n):
        key = rnd.choice(["t%d" % i, "é%d" % i, "", "comments",
                          "functionBlocks", "a b"])
        k = rnd.random()
        if k < 0.35:
            t = rnd.choice([
                ("sequence", [("UUID", [])]),
                ("mapping", [("Offset", []), ("string", [])]),
                ("mapping", [("UUID", []), ("set", [("UUID", [])])]),
                ("set", [("UUID", [])]),
                ("mapping", [("UUID", []), ("uint64_t", [])]),
                ("tuple", [("UUID", []), ("Offset", []), ("string", [])]),
            ])
        elif k < 0.45:
            t, v = auxgen.gen_long(rnd, pool)
        else:
            t = auxgen.gen_type(rnd, rnd.choice([0, 1, 2, 3]))
        if k < 0.35 or k >= 0.45:
            v = auxgen.gen_value(rnd, t, pool)
        out[key] = {"type": reftypes.show(t),
                    "pv": codecmon.to_json(refcodec.neutral(v, t))}
    return out


def gen_spec(rnd, gt, profile="mixed"):
    """profile: 'tiny' | 'mixed' | 'wide' (many children, for order
    sensitivity) | 'refs' (many references to few nodes)."""
    us = UuidSource(rnd)
    E = contract.ENUMS
    known_attr_numbers = contract.schema_enum_numbers(gt, "SymAttribute")
    hi = {"tiny": 2, "mixed": 3, "wide": 9, "refs": 3, "big": 14}[profile]

    def count(lo=0):
        if profile in ("wide", "big"):
            return rnd.randint(lo, hi)
        return rnd.choice([0, 1, 1, 2, hi]) if lo == 0 else \
            rnd.choice([1, 1, 2, hi])

    spec = {"uuid": us.new(), "version": 4, "modules": [], "edges": [],
            "aux": {}}
    nmods = rnd.choice([0, 1, 1, 1, 2, 2, 3]) if profile != "tiny" \
        else rnd.choice([0, 1, 1])
    for _ in range(nmods):
        m = {
            "uuid": us.new(), "name": name(rnd), "binary_path": name(rnd),
            "isa": rnd.choice(sorted(E["ISA"].values())),
            "file_format": rnd.choice(sorted(E["FileFormat"].values())),
            "byte_order": rnd.choice(sorted(E["ByteOrder"].values())),
            "preferred_addr": u64(rnd), "rebase_delta": i64(rnd),
            "entry_point": None, "aux": {}, "proxies": [], "sections": [],
            "symbols": [],
        }
        for _ in range(count()):
            m["proxies"].append({"uuid": us.new()})
        for _ in range(count()):
            flags = sorted(rnd.sample(sorted(E["SectionFlag"].values()),
                                      rnd.randint(0, len(E["SectionFlag"]))))
            s = {"uuid": us.new(), "name": name(rnd), "flags": flags,
                 "intervals": []}
            for _ in range(count()):
                size = rnd.choice([0, 1, 5, 8, 16, 1 << 63, U64, u64(rnd)])
                isz = min(size, rnd.choice([0, 0, 1, 3, 6]))
                bi = {"uuid": us.new(),
                      "address": rnd.choice([None, None, 0, 1, 16, U64,
                                             u64(rnd)]),
                      "size": size,
                      "contents": bytes(rnd.randrange(256)
                                        for _ in range(isz)).hex(),
                      "blocks": [], "exprs": {}}
                for _ in range(count()):
                    small = rnd.random() < 0.6
                    b = {"uuid": us.new(),
                         "kind": rnd.choice(["code", "data"]),
                         "offset": rnd.randint(0, 8) if small else u64(rnd),
                         "size": rnd.randint(0, 4) if small else u64(rnd)}
                    if b["kind"] == "code":
                        b["decode_mode"] = rnd.choice(
                            sorted(E["DecodeMode"].values()))
                    bi["blocks"].append(b)
                s["intervals"].append(bi)
            m["sections"].append(s)
        blocks = [b["uuid"] for s in m["sections"] for bi in s["intervals"]
                  for b in bi["blocks"]] + [p["uuid"] for p in m["proxies"]]
        code = [b["uuid"] for s in m["sections"] for bi in s["intervals"]
                for b in bi["blocks"] if b["kind"] == "code"]
        nsym = count() if profile != "refs" else rnd.randint(2, 6)
        for _ in range(nsym):
            k = rnd.random()
            if blocks and (k < 0.5 or profile == "refs"):
                pay = {"ref": rnd.choice(blocks[:2] if profile == "refs"
                                         else blocks)}
            elif k < 0.7:
                pay = None
            else:
                pay = {"value": rnd.choice([0, 0, 1, U64, u64(rnd)])}
            m["symbols"].append({"uuid": us.new(), "name": name(rnd),
                                 "at_end": rnd.random() < 0.4,
                                 "payload": pay})
        syms = [y["uuid"] for y in m["symbols"]]
        if syms:
            for s in m["sections"]:
                for bi in s["intervals"]:
                    for _ in range(count()):
                        known = rnd.sample(sorted(E["SymAttribute"].values()),
                                           rnd.choice([0, 0, 1, 2, 5]))
                        unk = []
                        for _ in range(rnd.choice([0, 0, 0, 1, 2])):
                            x = rnd.choice([27, 999, 5000, (1 << 31) - 1,
                                            rnd.randint(100, 100000)])
                            if x not in known_attr_numbers and x not in unk:
                                unk.append(x)
                        pick = (lambda: rnd.choice(syms[:2])) \
                            if profile == "refs" else (lambda: rnd.choice(syms))
                        if rnd.random() < 0.5:
                            e = {"kind": "const", "offset": i64(rnd),
                                 "sym": pick()}
                        else:
                            e = {"kind": "addr", "scale": i64(rnd),
                                 "offset": i64(rnd), "sym": pick(),
                                 "sym2": pick()}
                        e["attrs"] = known + unk
                        off = rnd.randint(0, 8) if rnd.random() < 0.6 \
                            else u64(rnd)
                        bi["exprs"][off] = e
        if code and rnd.random() < 0.7:
            m["entry_point"] = rnd.choice(code)
        spec["modules"].append(m)
    # an entry point may also be a code block of another module of the IR
    # (earlier or later in module order)
    allcode = [b["uuid"] for m in spec["modules"] for s in m["sections"]
               for bi in s["intervals"] for b in bi["blocks"]
               if b["kind"] == "code"]
    if allcode and len(spec["modules"]) > 1:
        for m in spec["modules"]:
            if rnd.random() < 0.2:
                m["entry_point"] = rnd.choice(allcode)
        if rnd.random() < 0.25:
            # several modules share one entry block (of any module)
            shared = rnd.choice(allcode)
            for m in spec["modules"]:
                if rnd.random() < 0.8:
                    m["entry_point"] = shared
    cfg_nodes = [b["uuid"] for m in spec["modules"] for s in m["sections"]
                 for bi in s["intervals"] for b in bi["blocks"]
                 if b["kind"] == "code"] + \
                [p["uuid"] for m in spec["modules"] for p in m["proxies"]]
    if cfg_nodes:
        seen = set()
        nedges = rnd.choice([0, 1, 2, 4, 8]) if profile != "wide" \
            else rnd.randint(0, 14)
        for _ in range(nedges):
            k = rnd.random()
            if k < 0.25:
                lab = None
            elif k < 0.4:
                lab = {"type": rnd.choice(sorted(E["EdgeType"].values())),
                       "conditional": False, "direct": False}
            else:
                lab = {"type": rnd.choice(sorted(E["EdgeType"].values())),
                       "conditional": rnd.random() < 0.5,
                       "direct": rnd.random() < 0.5}
            pool = cfg_nodes[:2] if profile == "refs" else cfg_nodes
            src, tgt = rnd.choice(pool), rnd.choice(pool)
            key = (src, tgt, repr(lab))
            if key not in seen:
                seen.add(key)
                spec["edges"].append({"src": src, "tgt": tgt, "label": lab})
            # twins between the same endpoints whose labels are easy to
            # confuse: no label vs the all-default label vs one flag set
            if rnd.random() < 0.25:
                for lab2 in (None,
                             {"type": "Branch", "conditional": False,
                              "direct": False},
                             {"type": "Branch", "conditional": False,
                              "direct": True}):
                    key2 = (src, tgt, repr(lab2))
                    if key2 not in seen and rnd.random() < 0.7:
                        seen.add(key2)
                        spec["edges"].append({"src": src, "tgt": tgt,
                                              "label": lab2})
    nodes = node_uuids(spec)
    spec["aux"] = gen_aux(rnd, gt, nodes, rnd.choice([0, 1, 2, 3]))
    for m in spec["modules"]:
        m["aux"] = gen_aux(rnd, gt, nodes, rnd.choice([0, 0, 1, 2]))
    return spec


def walk(spec):
    """Yield (kind, node_dict, parent_dict) for every node of the spec."""
    yield "ir", spec, None
    for m in spec["modules"]:
        yield "module", m, spec
        for p in m["proxies"]:
            yield "proxy", p, m
        for y in m["symbols"]:
            yield "symbol", y, m
        for s in m["sections"]:
            yield "section", s, m
            for bi in s["intervals"]:
                yield "interval", bi, s
                for b in bi["blocks"]:
                    yield b["kind"], b, bi


def node_uuids(spec):
    return [n["uuid"] for k, n, p in walk(spec)]


def kinds(spec):
    return {n["uuid"]: k for k, n, p in walk(spec)}


def norm_aux(aux):
    out = {}
    for k, a in aux.items():
        t = refcodec.parse(a["type"])
        out[k] = {"type": a["type"], "pv": codecmon.to_json(
            refcodec.norm(codecmon.from_json(a["pv"])))}
    return out


def attr_key(a):
    return (0, a) if isinstance(a, str) else (1, a)


def normalize(spec, with_aux_values=True):
    """Canonical form: unordered children sorted by UUID, flag/attribute
    lists sorted, edges sorted; module order kept."""
    s = copy.deepcopy(spec)

    def aux(a):
        n = norm_aux(a)
        if not with_aux_values:
            return {k: None for k in n}
        return n

    s["aux"] = aux(s["aux"])
    for m in s["modules"]:
        m["aux"] = aux(m["aux"])
        m["proxies"].sort(key=lambda x: x["uuid"])
        m["symbols"].sort(key=lambda x: x["uuid"])
        m["sections"].sort(key=lambda x: x["uuid"])
        for sec in m["sections"]:
            sec["flags"] = sorted(sec["flags"])
            sec["intervals"].sort(key=lambda x: x["uuid"])
            for bi in sec["intervals"]:
                bi["blocks"].sort(key=lambda x: x["uuid"])
                bi["exprs"] = {int(k): dict(e, attrs=sorted(e["attrs"],
                                                            key=attr_key))
                               for k, e in sorted(
                                   (int(k), e) for k, e in
                                   bi["exprs"].items())}
    s["edges"] = sorted(s["edges"], key=lambda e: (e["src"], e["tgt"],
                                                   repr(e["label"])))
    return s


def nontrivial(spec):
    ks = set(kinds(spec).values())
    return len(spec["modules"]) >= 1 and len(ks) >= 4


def summary(spec):
    ks = list(kinds(spec).values())
    return {k: ks.count(k) for k in sorted(set(ks))} | {
        "edges": len(spec["edges"]),
        "exprs": sum(len(bi["exprs"]) for m in spec["modules"]
                     for s in m["sections"] for bi in s["intervals"]),
        "aux": len(spec["aux"]) + sum(len(m["aux"]) for m in spec["modules"])}


def boundary_classes(spec):
    """Names of the C01 boundary classes this spec exercises (evidence)."""
    out = set()
    for k, n, p in walk(spec):
        if k == "interval":
            a = n["address"]
            out.add("address:None" if a is None else
                    "address:0" if a == 0 else
                    "address:2^64-1" if a == U64 else "address:other")
            if n["size"] == 0:
                out.add("interval:size0")
            if n["size"] == U64:
                out.add("interval:size2^64-1")
            if not n["contents"]:
                out.add("interval:no-bytes")
            offs = [b["offset"] for b in n["blocks"]]
            if len(offs) != len(set(offs)):
                out.add("blocks:equal-offsets")
            for e in n["exprs"].values():
                if any(isinstance(a, int) for a in e["attrs"]):
                    out.add("expr:unknown-attr")
                if e["attrs"]:
                    out.add("expr:known-attr")
                if e["offset"] < 0:
                    out.add("expr:negative-int64")
                out.add("expr:" + e["kind"])
        elif k in ("code", "data"):
            if n["size"] == 0:
                out.add("block:size0")
            if n["offset"] == U64 or n["size"] == U64:
                out.add("block:2^64-1")
        elif k == "symbol":
            pay = n["payload"]
            out.add("symbol:none" if pay is None else
                    "symbol:value0" if pay.get("value") == 0 else
                    "symbol:value" if "value" in pay else "symbol:referent")
            if n["at_end"]:
                out.add("symbol:at_end")
        elif k == "module":
            if n["rebase_delta"] < 0:
                out.add("module:negative-rebase")
            if n["entry_point"]:
                out.add("module:entry")
                own = {b["uuid"] for s_ in n["sections"]
                       for bi in s_["intervals"] for b in bi["blocks"]}
                if n["entry_point"] not in own:
                    out.add("module:entry-in-other-module")
                if sum(1 for o in spec["modules"]
                       if o["entry_point"] == n["entry_point"]) > 1:
                    out.add("module:entry-shared-between-modules")
            out.add("isa:" + n["isa"])
            out.add("format:" + n["file_format"])
            out.add("order:" + n["byte_order"])
        if "name" in n:
            nm = n["name"]
            out.add("name:empty" if nm == "" else
                    "name:non-ascii" if any(ord(c) > 127 for c in nm)
                    else "name:ascii")
    for e in spec["edges"]:
        lab = e["label"]
        out.add("label:None" if lab is None else
                "label:all-false" if not lab["conditional"]
                and not lab["direct"] else "label:other")
        if lab:
            out.add("edgetype:" + lab["type"])
        if e["src"] == e["tgt"]:
            out.add("edge:self-loop")
    pairs = [(e["src"], e["tgt"]) for e in spec["edges"]]
    if len(pairs) != len(set(pairs)):
        out.add("edge:parallel")
    if len(spec["modules"]) == 0:
        out.add("ir:no-modules")
    if len(spec["modules"]) >= 2:
        out.add("ir:multi-module")
    return out
