"""Ownership engine (C03, C04, C10, C16): long random histories of public
move / attach / detach / collection operations over several IRs, executed in
lock-step on the real objects and on a forest + attribute model; after
*every* operation the world observer (gtmon/world.py) and the model are
compared with the real objects.

Nodes are named by logical ids; every random choice is made over the model
(never by iterating a gtirb set), results chosen by the implementation
(set.pop) are observed and mapped back, UUIDs come from the case PRNG - so a
history is reproducible from (seed, case index).
"""
import collections
import collections.abc
import operator
import uuid as _uuid

from . import irio, world
from .ctx import Discrepancy

REL = {  # child kind -> (parent kind, parent attribute, collection attribute)
    "M": ("IR", "ir", "modules"),
    "S": ("M", "module", "sections"),
    "Y": ("M", "module", "symbols"),
    "P": ("M", "module", "proxies"),
    "I": ("S", "section", "byte_intervals"),
    "C": ("I", "byte_interval", "blocks"),
    "D": ("I", "byte_interval", "blocks"),
}
RELNAME = {"M": "IR.modules", "S": "Module.sections", "Y": "Module.symbols",
           "P": "Module.proxies", "I": "Section.byte_intervals",
           "C": "ByteInterval.blocks", "D": "ByteInterval.blocks"}
SET_RELS = [("M", "sections", "S"), ("M", "symbols", "Y"),
            ("M", "proxies", "P"), ("S", "byte_intervals", "I"),
            ("I", "blocks", "CD")]
NAMES = ["", "a", "b", "main", "main_entry_point_of_the_program",
         # canonically equivalent but different strings (composed and
         # decomposed forms), and a compatibility character
         "caf\u00e9", "cafe\u0301", "\u212b", "\u00c5", "A\u030a"]


def fresh(name):
    """An equal but distinct string object (identifier-like literals are
    interned, so two of them are also identical; names computed at run time,
    as names read from a file are, are not)."""
    return bytes(name, "utf-8").decode("utf-8") if len(name) > 1 else name

# how a batch of values is handed to a collection method: re-iterable
# containers and one-shot iterators (a fresh one is made per call)
def jx(i):
    """JSON-able form of an index argument for the operation log."""
    return i if type(i) is int else repr(i)



def _keys_view(xs):
    """A Set that is not a set: the key view of a dict."""
    return dict.fromkeys(xs).keys()


class _AbcSet(collections.abc.Set):
    """A minimal collections.abc.Set that is neither set nor frozenset."""

    def __init__(self, xs=()):
        self._xs = list(dict.fromkeys(xs))

    def __contains__(self, x):
        return any(x is y or x == y for y in self._xs)

    def __iter__(self):
        return iter(self._xs)

    def __len__(self):
        return len(self._xs)


class IndexLike:
    """An index only through __index__ (as numpy integers are)."""

    def __init__(self, i):
        self.i = i

    def __index__(self):
        return self.i

    def __repr__(self):
        return "IndexLike(%d)" % self.i


HOSTILE_INDEXES = [
    lambda i: 2 ** 63, lambda i: -2 ** 63 - 1, lambda i: 2 ** 64,
    lambda i: -2 ** 64, lambda i: 10 ** 30, lambda i: 2 ** 63 - 1,
    lambda i: -2 ** 63, lambda i: str(i), lambda i: None,
    lambda i: float(i), lambda i: bool(i % 2), lambda i: IndexLike(i),
    lambda i: IndexLike(2 ** 64),
]


ARG_KINDS = [("list", list), ("tuple", tuple), ("iter", iter),
             ("generator", lambda xs: (x for x in xs)),
             ("reversed", lambda xs: reversed(xs[::-1])),
             ("map", lambda xs: map(lambda x: x, xs))]


class World:
    def __init__(self, gt, rnd, ctx, case, focus="all"):
        self.gt, self.rnd, self.ctx, self.case = gt, rnd, ctx, case
        self.focus = focus
        self.obj, self.lid, self.kind = {}, {}, {}
        self.parent = {}
        self.mods = {}  # IR lid -> ordered module lids
        self.attrs = {}  # lid -> dict of tracked attribute values
        self.n = 0
        self.steps = 0

    # ---- bookkeeping ---------------------------------------------------
    def new_uuid(self):
        return _uuid.UUID(int=self.rnd.getrandbits(128))

    def register(self, obj, kind, parent=None, attrs=None):
        self.n += 1
        lid = "%s%d" % (kind, self.n)
        self.obj[lid] = obj
        self.lid[id(obj)] = lid
        self.kind[lid] = kind
        if kind == "IR":
            self.mods[lid] = []
        else:
            self.parent[lid] = None
            if parent is not None:
                self.attach_model(lid, parent)
        self.attrs[lid] = attrs or {}
        return lid

    def of(self, obj):
        return None if obj is None else self.lid.get(id(obj), "?unknown")

    def lids(self, kinds):
        return [l for l in self.obj if self.kind[l] in kinds]

    def children(self, plid, kinds=None):
        return [c for c, p in self.parent.items() if p == plid and
                (kinds is None or self.kind[c] in kinds)]

    def subtree(self, lid):
        out, work = [], [lid]
        while work:
            x = work.pop()
            out.append(x)
            if self.kind[x] == "IR":
                work.extend(self.mods[x])
            else:
                work.extend(self.children(x))
        return out

    def ir_of(self, lid):
        while lid is not None and self.kind[lid] != "IR":
            lid = self.parent[lid]
        return lid

    def module_of(self, lid):
        while lid is not None and self.kind[lid] != "M":
            lid = self.parent.get(lid)
        return lid

    def attach_model(self, c, p):
        self.detach_model(c)
        self.parent[c] = p
        if self.kind[c] == "M":
            self.mods[p].append(c)

    def detach_model(self, c):
        p = self.parent.get(c)
        if p is not None and self.kind[c] == "M":
            self.mods[p].remove(c)
        self.parent[c] = None

    def can_attach(self, c, p):
        """C03 precondition: UUIDs stay pairwise distinct within an IR."""
        ir = self.ir_of(p)
        if ir is None:
            return True
        sub = set(self.subtree(c))
        mine = [self.obj[x].uuid for x in sub]
        if len(mine) != len(set(mine)):
            return False  # twins (two loads of one file) inside the subtree
        there = {self.obj[x].uuid for x in self.subtree(ir) if x not in sub}
        return not (set(mine) & there)

    def can_attach_all(self, cs, p, leaving=()):
        """`leaving`: nodes the same operation takes out of the IR first
        (the slots a list assignment replaces)."""
        ir = self.ir_of(p)
        if ir is None:
            return True
        sub = set()
        for c in cs:
            sub |= set(self.subtree(c))
        mine = [self.obj[x].uuid for x in sub]
        if len(mine) != len(set(mine)):
            return False
        gone = set()
        for c in leaving:
            gone |= set(self.subtree(c))
        there = {self.obj[x].uuid for x in self.subtree(ir)
                 if x not in sub and x not in gone}
        return not (set(mine) & there)

    def twins_of(self, x):
        """Other nodes of x's kind carrying x's UUID (from loading a file
        whose source is still alive)."""
        u = self.obj[x].uuid
        return [y for y in self.lids(self.kind[x])
                if y != x and self.obj[y].uuid == u]

    # ---- node creation -------------------------------------------------
    def make(self, kind, parent=None, via_ctor=False, **extra):
        gt, rnd = self.gt, self.rnd
        u = self.new_uuid()
        pobj = self.obj[parent] if (parent and via_ctor) else None
        a = {}
        if kind == "IR":
            a = {"aux_keys": []}
            o = gt.IR(uuid=u)
        elif kind == "M":
            a = {"name": fresh(rnd.choice(NAMES)), "aux_keys": []}
            o = gt.Module(name=a["name"], uuid=u, ir=pobj, **extra)
        elif kind == "S":
            a = {"name": fresh(rnd.choice(NAMES)), "flags": frozenset()}
            o = gt.Section(name=a["name"], uuid=u, module=pobj, **extra)
        elif kind == "I":
            a = {"address": rnd.choice([None, rnd.randint(0, 40)]),
                 "size": rnd.randint(0, 12)}
            o = gt.ByteInterval(address=a["address"], size=a["size"], uuid=u,
                                section=pobj, **extra)
        elif kind in "CD":
            a = {"offset": rnd.randint(0, 10), "size": rnd.randint(0, 4)}
            cls = gt.CodeBlock if kind == "C" else gt.DataBlock
            o = cls(offset=a["offset"], size=a["size"], uuid=u,
                    byte_interval=pobj)
        elif kind == "P":
            o = gt.ProxyBlock(uuid=u, module=pobj)
        elif kind == "Y":
            a = {"name": fresh(rnd.choice(NAMES)), "at_end": False,
                 "payload": None}
            pay = extra.pop("payload_lid", None)
            if pay is not None:
                a["payload"] = pay
            o = gt.Symbol(a["name"], uuid=u, module=pobj,
                          payload=self.obj[pay] if isinstance(pay, str)
                          else pay)
        lid = self.register(o, kind, parent if via_ctor else None, a)
        return lid

    # ---- verification --------------------------------------------------
    def fail(self, prop, mech, what, **detail):
        detail = dict(detail, last_ops=self.case.ops[-6:], step=self.steps)
        own = self.ctx.prop
        if prop != own and own in ("C03", "C04", "C10") and \
                not getattr(self, "_in_fail", False):
            # a discrepancy of another property ends this history; before
            # that, see whether it also broke this check's own invariants
            self._in_fail = True
            universe = [o for l, o in self.obj.items()
                        if self.kind[l] != "IR"]
            irs = [o for l, o in self.obj.items() if self.kind[l] == "IR"]
            try:
                F = world.check(self.gt, irs, universe, names=NAMES,
                                rnd=self.rnd, want=(own,))
            except Exception:
                F = []
            if F:
                raise Discrepancy(
                    F[0][0], F[0][1] + ":after:" + mech,
                    "%s [after an operation that also failed %s: %s]"
                    % (F[0][2], prop, what), detail)
        raise Discrepancy(prop, mech, what, detail)

    def verify(self, after):
        gt = self.gt
        universe = [o for l, o in self.obj.items() if self.kind[l] != "IR"]
        irs = [o for l, o in self.obj.items() if self.kind[l] == "IR"]
        mp = {id(self.obj[c]): (self.obj[p] if p else None)
              for c, p in self.parent.items()}
        cnt = collections.Counter()
        F = world.check(gt, irs, universe, model_parent=mp, names=NAMES,
                        rnd=self.rnd, counters=cnt)
        for k, v in cnt.items():
            self.ctx.count(k, v)
        # module order = model order
        for irl, ms in self.mods.items():
            actual = [self.of(m) for m in self.obj[irl].modules]
            self.ctx.count("c16:module_order_checks")
            if actual != ms:
                F.append(("C16", "module-order:" + after,
                          "ir.modules is %s, the list model says %s"
                          % (actual, ms)))
        # set contents = model (independent of parent attributes)
        for pk, coll, ck in SET_RELS:
            for pl in self.lids(pk):
                actual = sorted(self.of(x) for x in getattr(self.obj[pl],
                                                            coll))
                want = sorted(self.children(pl, ck))
                if actual != want:
                    F.append(("C04", "collection-contents:%s.%s" % (
                        {"M": "Module", "S": "Section",
                         "I": "ByteInterval"}[pk], coll),
                        "%s of %s is %s, the forest model says %s"
                        % (coll, pl, actual, want)))
        # attribute isolation: every tracked attribute equals the model
        for l, a in self.attrs.items():
            o = self.obj[l]
            for k, v in a.items():
                if k == "payload":
                    got = o.referent if o.referent is not None else o.value
                    got = self.of(got) if isinstance(got, gt.Node) else got
                elif k == "flags":
                    got = frozenset(f.name for f in o.flags)
                elif k == "aux_keys":
                    got = sorted(o.aux_data)
                elif k == "attributes":
                    continue
                else:
                    got = getattr(o, k)
                self.ctx.count("c04:attribute_checks")
                if got != v:
                    F.append(("C04", "unrelated-attribute-changed:%s.%s" % (
                        world.kind(gt, o), k),
                        "%s.%s is %r, the model says %r (after %s)"
                        % (l, k, got, v, after)))
        if F and self.ctx.prop == "C16" and after.startswith(
                ("set.", "list.", "ctor")):
            # C16: "a failed operation leaves the collection and its
            # elements consistent", contents/ownership after every call
            F = [("C16", "world-inconsistent-after:%s:%s" % (
                after.split(":")[0], f[1].split(":")[0]), f[2])
                for f in F] + F
        if F:
            # report the finding that belongs to the running property first
            F.sort(key=lambda f: (f[0] != self.ctx.prop,))
            f = F[0]
            self.fail(f[0], f[1], "%s [after %s]" % (f[2], after),
                      findings=[list(x) for x in F[:8]])
        self.ctx.count("world_checks")
        # distinct structural states visited (shape of the forest, ids erased)
        def shape(l):
            kids = self.mods[l] if self.kind[l] == "IR" else self.children(l)
            return (self.kind[l], tuple(sorted(shape(c) for c in kids)))
        roots = [l for l in self.obj if self.kind[l] == "IR" or
                 self.parent.get(l) is None]
        self.ctx.seen("states", tuple(sorted(shape(r) for r in roots)))

    # ---- operations ----------------------------------------------------
    def log(self, **op):
        self.case.ops.append(op)
        self.ctx.count("op:" + op["op"])

    def op_set_parent(self):
        """child.<parent attribute> = parent or None"""
        rnd = self.rnd
        c = rnd.choice(self.lids("MSYPICD"))
        k = self.kind[c]
        pk, attr, coll = REL[k]
        cands = self.lids([pk]) + [None]
        p = rnd.choice(cands)
        if p is not None and not self.can_attach(c, p):
            self.ctx.count("skipped:uuid-precondition")
            return
        same = self.parent[c] == p
        self.log(op="set_parent", child=c, parent=p)
        setattr(self.obj[c], attr, self.obj[p] if p else None)
        if p is None:
            self.detach_model(c)
        elif not same or k != "M":
            self.attach_model(c, p)
        else:
            # module re-assigned to its current IR: removed and appended
            self.attach_model(c, p)
        self.ctx.count("relation:%s:child-side" % RELNAME[k])
        if not same and p is not None:
            self.ctx.count("moves")
        return "set_parent:" + RELNAME[k]

    def pick_others(self, ck, plid, nmax=3):
        """Operands: members, non-members (unowned), owned elsewhere, new."""
        rnd = self.rnd
        pool = self.lids(ck)
        out = []
        for _ in range(rnd.randint(0, nmax)):
            if pool and rnd.random() < 0.85:
                x = rnd.choice(pool)
            else:
                x = self.make(rnd.choice(ck))
            if x not in out:
                out.append(x)
        return out

    def op_set_mutation(self):
        rnd, gt = self.rnd, self.gt
        pk, coll, ck = rnd.choice(SET_RELS)
        ps = self.lids(pk)
        if not ps:
            return
        p = rnd.choice(ps)
        S = getattr(self.obj[p], coll)
        members = self.children(p, ck)
        op = rnd.choice(["add", "add", "discard", "remove", "pop", "clear",
                         "update", "update2", "ior", "isub", "ixor", "iand",
                         "update0"])
        relname = RELNAME[ck[0]]
        others = self.pick_others(ck, p)
        if op in ("discard", "remove", "isub", "iand") and \
                rnd.random() < 0.25:
            # nodes of another kind (e.g. a symbol handed to
            # module.sections.discard): for the built-in set they are just
            # non-members
            wrong = [k for k in "MSYPICD" if k not in ck]
            pool = self.lids(wrong)
            sib = [x for x in pool if self.parent.get(x) == p]
            cand = sib if sib and rnd.random() < 0.7 else pool
            if cand:
                others = [rnd.choice(cand)] + others
                self.ctx.count("c16:set_operand:other-kind-node")
        if op in ("discard", "remove", "isub", "iand", "ixor") and \
                members and rnd.random() < 0.4:
            # the twin of a member (same UUID, another load of the file):
            # for the collection it is a stranger like any other
            tw = [t for x in members for t in self.twins_of(x)]
            if tw:
                others = [rnd.choice(tw)] + (others if op != "discard"
                                             and op != "remove" else [])
                self.ctx.count("c16:set_operand:twin-of-member")
        # operand form for the batch operations: a plain container, another
        # owning collection of the same kind (its members are then moved
        # while it is being iterated), or the collection itself
        form = "plain"
        operand = None
        if op in ("update", "ior", "isub", "ixor", "iand") and \
                rnd.random() < 0.3:
            if rnd.random() < 0.7 and len(ps) > 1:
                q = rnd.choice([x for x in ps if x != p])
                others = self.children(q, ck)
                operand = getattr(self.obj[q], coll)
                form = "other-owning-collection"
            else:
                others = list(members)
                operand = S
                form = "itself"
        objs = [self.obj[x] for x in others]
        model = set(members)
        attach = [x for x in others if x not in model]
        # container type of a plain operand of the in-place operators: a
        # set, a frozenset, or a Set that is neither (a dict's key view, a
        # collections.abc.Set subclass); the MutableSet protocol takes them
        # all and keeps the collection object
        wrap = set
        if op in ("ior", "isub", "ixor", "iand") and operand is None:
            wrap = rnd.choice([set, set, frozenset, _keys_view, _AbcSet])
            self.ctx.count("c16:set_inplace_operand_type:" + getattr(
                wrap, "__name__", "?"))
        if op == "add" and members and rnd.random() < 0.3:
            # a member added again: nothing to do, as for the built-in
            others = [rnd.choice(members)]
            objs = [self.obj[others[0]]]
            self.ctx.count("c16:set_add_present_member")
        if op in ("add", "discard", "remove"):
            if not others:
                return
            others, objs = others[:1], objs[:1]
            attach = [x for x in others if x not in model]
        if op in ("add", "update", "update2", "ior", "ixor"):
            if not self.can_attach_all(attach, p):
                self.ctx.count("skipped:uuid-precondition")
                return
        # a batch one of whose elements cannot be a member at all (not a
        # node, or a node of a kind without this back-pointer): the call
        # fails, and what C16 asks is that nothing is left half-moved
        bad = None
        if op in ("update", "update2", "ior") and form == "plain" and \
                objs and rnd.random() < 0.1:
            bad = rnd.choice(["None", "int", "str"] + (
                ["other-kind-node"] if ck[0] in "CD" else []))
            junk = {"None": None, "int": 5, "str": "x"}.get(bad)
            if bad == "other-kind-node":
                pool = self.lids("PMSY")
                if not pool:
                    bad = None
                else:
                    junk = self.obj[rnd.choice(pool)]
            if bad is not None:
                objs = objs + [junk]
                rnd.shuffle(objs)
        self.log(op="set." + op, parent=p, coll=coll, others=others,
                 operand=form, **({"bad_element": bad} if bad else {}),
                 **({"operand_type": wrap.__name__} if wrap is not set
                    else {}))
        self.ctx.count("c16:set_operand:" + form)
        expect_exc = None
        ret = None
        exc = None
        before_obj = S
        # an iterator taken before the operation and consumed after it
        live_it, seen_before = None, []
        if rnd.random() < 0.3:
            live_it = iter(S)
            for _ in range(rnd.randint(0, len(model))):
                seen_before.append(self.of(next(live_it)))
            self.case.ops[-1]["live_iterator_advanced"] = len(seen_before)
        # the in-place operators are applied to the attribute itself half of
        # the time (`node.coll -= x` re-assigns what the operator returns),
        # so that an operator which does not return the collection shows in
        # the world and not only in the returned object
        via_attr = rnd.random() < 0.5

        def inplace(fn, arg):
            if via_attr:
                r = fn(getattr(self.obj[p], coll), arg)
                setattr(self.obj[p], coll, r)
                return r
            return fn(S, arg)
        try:
            if op == "add":
                ret = S.add(objs[0])
                new = model | set(others)
            elif op == "discard":
                ret = S.discard(objs[0])
                new = model - set(others)
            elif op == "remove":
                if others[0] not in model:
                    expect_exc = KeyError
                new = model - set(others)
                ret = S.remove(objs[0])
            elif op == "pop":
                if not model:
                    expect_exc = KeyError
                new = set(model)
                r = S.pop()
                rl = self.of(r)
                if rl not in model:
                    self.fail("C16", "set.pop-returns-non-member:" + relname,
                              "pop() returned %s which was not a member"
                              % rl)
                new.discard(rl)
            elif op == "clear":
                ret = S.clear()
                new = set()
            elif op == "update0":
                ret = S.update()
                new = set(model)
            elif op == "update":
                arg = operand if operand is not None else \
                    rnd.choice([list, tuple, iter] if bad else
                               [list, set, tuple, iter])(objs)
                ret = S.update(arg)
                new = model | set(others)
            elif op == "update2":
                k = rnd.randint(0, len(objs))
                args = [objs[:k], objs[k:] if bad else set(objs[k:])]
                if rnd.random() < 0.35:
                    # the collection itself among the iterables
                    args.insert(rnd.randint(0, len(args)), S)
                    self.ctx.count("c16:set_update_args_include_itself")
                    self.case.ops[-1]["itself_among_arguments"] = True
                ret = S.update(*args)
                new = model | set(others)
            elif op == "ior":
                S = inplace(operator.ior, operand if operand is not None else ( objs if bad else wrap(objs)))
                new = model | set(others)
            elif op == "isub":
                S = inplace(operator.isub, operand if operand is not None else wrap(objs))
                new = model - set(others)
            elif op == "ixor":
                S = inplace(operator.ixor, operand if operand is not None else wrap(objs))
                new = model ^ set(others)
            elif op == "iand":
                S = inplace(operator.iand, operand if operand is not None else wrap(objs))
                new = model & set(others)
        except Exception as e:
            exc = e
        tag = "set.%s:%s" % (op, relname)
        if form != "plain":
            tag += ":operand-" + form
        if bad is not None:
            tag += ":unusable-element"
            self.ctx.count("c16:set_batch_with_unusable_element")
            if exc is None:
                self.fail("C16", "%s:accepted" % tag,
                          "%s accepted %s as a member" % (tag, bad))
            # like the built-in's, the batch may have been applied up to
            # the offending element: the model follows what the collection
            # now holds, and the world check that follows decides whether
            # every element is wholly in or wholly out
            self.ctx.count("c16:set_batch_with_unusable_element_raising")
            new = {x for x in model | set(others) if self.obj[x] in S}
            exc = None
            ret = None
        if exc is not None:
            if expect_exc is None or not isinstance(exc, expect_exc):
                self.fail("C16", "%s:raises:%s" % (tag, type(exc).__name__),
                          "%s raised %s: %s where the built-in set %s"
                          % (tag, type(exc).__name__, str(exc)[:100],
                             "raises " + expect_exc.__name__ if expect_exc
                             else "succeeds"), others=others)
            new = model  # failed operation leaves everything as it was
        elif expect_exc is not None:
            self.fail("C16", "%s:no-exception" % tag,
                      "%s did not raise %s" % (tag, expect_exc.__name__))
        if ret is not None:
            self.fail("C16", "%s:return-value" % tag,
                      "%s returned %r, the built-in returns None" % (tag, ret))
        if S is not before_obj or getattr(self.obj[p], coll) is not before_obj:
            self.fail("C16", "%s:collection-object-replaced" % tag,
                      "in-place operator replaced the owning collection")
        if live_it is not None:
            self.ctx.count("c16:set_iter_across_edit")
            rest, raised = [], None
            try:
                for x in live_it:
                    rest.append(self.of(x))
            except RuntimeError as e:
                raised = e
            if len(new) != len(model):
                # CPython's set refuses to go on after a size change, but
                # its documentation promises nothing here: evidence only
                self.ctx.count("c16:set_iter_after_size_change:" + (
                    "RuntimeError" if raised else "went-on"))
            elif new == model:
                got = collections.Counter(seen_before + rest)
                if raised is not None or got != collections.Counter(model):
                    self.fail("C16", "%s:iterator-broken-by-noop" % tag,
                              "%s changed nothing, but an iterator taken "
                              "before it %s" % (tag, "raised RuntimeError"
                                                if raised else
                                                "yielded %s of %s" % (
                                                    sorted(got.elements()),
                                                    sorted(model))))
        # apply to the model
        for x in model - new:
            self.detach_model(x)
        for x in new - model:
            self.attach_model(x, p)
            self.ctx.count("moves")
        self.ctx.count("relation:%s:collection-side" % relname)
        return tag

    def op_set_query(self):
        """Non-mutating MutableSet interface vs the built-in set."""
        rnd = self.rnd
        pk, coll, ck = rnd.choice(SET_RELS)
        ps = self.lids(pk)
        if not ps:
            return
        p = rnd.choice(ps)
        S = getattr(self.obj[p], coll)
        members = self.children(p, ck)
        others = self.pick_others(ck, p)
        if members and rnd.random() < 0.6:
            others = list(dict.fromkeys(
                others + rnd.sample(members, rnd.randint(1, len(members)))))
        B = set(self.obj[x] for x in members)
        O = set(self.obj[x] for x in others)
        relname = RELNAME[ck[0]]
        op = rnd.choice(["or", "and", "sub", "xor", "ror", "rand", "rsub",
                         "rxor", "eq", "ne", "le", "lt", "ge", "gt",
                         "isdisjoint", "contains", "len", "iter", "req"])
        self.log(op="setq." + op, parent=p, coll=coll, others=others)
        import operator
        fn = {
            "or": lambda: (S | O, B | O), "and": lambda: (S & O, B & O),
            "sub": lambda: (S - O, B - O), "xor": lambda: (S ^ O, B ^ O),
            "ror": lambda: (O | S, O | B), "rand": lambda: (O & S, O & B),
            "rsub": lambda: (O - S, O - B), "rxor": lambda: (O ^ S, O ^ B),
            "eq": lambda: (S == O, B == O), "ne": lambda: (S != O, B != O),
            "req": lambda: (O == S, O == B),
            "le": lambda: (S <= O, B <= O), "lt": lambda: (S < O, B < O),
            "ge": lambda: (S >= O, B >= O), "gt": lambda: (S > O, B > O),
            "isdisjoint": lambda: (S.isdisjoint(O), B.isdisjoint(O)),
            "contains": lambda: ([x in S for x in sorted(
                O, key=lambda n: n.uuid)], [x in B for x in sorted(
                    O, key=lambda n: n.uuid)]),
            "len": lambda: (len(S), len(B)),
            "iter": lambda: (sorted(map(id, S)), sorted(map(id, B))),
        }[op]
        tag = "set.%s:%s" % (op, relname)
        try:
            got, want = fn()
        except Exception as e:
            self.fail("C16", "%s:raises:%s" % (tag, type(e).__name__),
                      "%s raised %s: %s where the built-in set succeeds"
                      % (tag, type(e).__name__, str(e)[:100]), others=others)
        self.ctx.count("c16:set_query_comparisons")
        if isinstance(want, (set, frozenset)):
            ok = isinstance(got, collections.abc.Set) and \
                set(map(id, got)) == set(map(id, want)) and \
                len(got) == len(want)
        else:
            ok = got == want and type(got) is type(want)
        if not ok:
            self.fail("C16", "%s:wrong-result" % tag,
                      "%s gave %s, the built-in set gives %s" % (
                          tag, self.show(got), self.show(want)),
                      others=others)
        return tag

    def show(self, x):
        if isinstance(x, collections.abc.Set):
            return sorted(self.of(n) for n in x)
        return repr(x)

    # ---- ir.modules: MutableSequence -----------------------------------
    def op_twin_replace(self):
        """ir.modules[i:j] = <the same modules from another load of the
        file> (or one slot): every UUID stays unique in the IR."""
        rnd = self.rnd
        irs = [x for x in self.lids(["IR"]) if self.mods[x]]
        if not irs:
            return
        a = rnd.choice(irs)
        if not all(self.twins_of(x) for x in self.mods[a]):
            before = len(self.lids(["IR"]))
            if before >= 6:
                return
            self.op_load(src=a)
            if len(self.lids(["IR"])) == before:
                return
        return self.op_list(force={"ir": a, "op": rnd.choice(
            ["setslice", "setslice", "setitem"])})

    def op_list(self, force=None):
        rnd, gt = self.rnd, self.gt
        irl = force["ir"] if force else rnd.choice(self.lids(["IR"]))
        twin_p = 1.0 if force else 0.25
        L = self.obj[irl].modules
        cur = list(self.mods[irl])
        n = len(cur)
        op = force["op"] if force else rnd.choice(["append", "insert", "extend", "iadd", "delitem",
                         "delslice", "setitem", "setslice", "setslice",
                         "pop", "pop_i",
                         "remove", "clear", "reverse", "index", "count",
                         "getslice", "contains", "iter", "reversed",
                         "getitem", "iter_across_edit", "iter_across_edit",
                         "iter_across_edit"])
        pool = self.lids("M")

        def pick_mod(allow_member=True):
            k = rnd.random()
            if k < 0.25 or not pool:
                return self.make("M")
            x = rnd.choice(pool)
            return x

        hostile = []

        def rand_index():
            if rnd.random() < 0.12:
                # indexes the built-in list treats specially: beyond
                # ssize_t, not an index at all, or an index only through
                # __index__ (bool, index-like objects)
                i = rnd.choice(HOSTILE_INDEXES)(rnd.randint(-n - 1, n + 1))
                if not (isinstance(i, int) and -2 ** 63 <= i < 2 ** 63):
                    # which exception a non-index or an index beyond
                    # ssize_t earns is CPython's business, not C16's: such
                    # a call is judged by the weak rule below (a failed
                    # operation changes nothing; a successful one equals
                    # the built-in's)
                    hostile.append(i)
                return i
            return rnd.randint(-n - 2, n + 2)

        def rand_slice():
            a = rnd.choice([None, rnd.randint(-n - 1, n + 1)])
            b = rnd.choice([None, rnd.randint(-n - 1, n + 1)])
            c = rnd.choice([None, None, None, 1, 2, -1, -2, 3])
            return slice(a, b, c)

        blt = [self.obj[x] for x in cur]  # the built-in list to mirror
        args = {}
        incoming = []
        fn = None
        if op == "append":
            x = pick_mod()
            incoming = [x]
            fn = lambda T: T.append(self.obj[x])
        elif op == "insert":
            x, i = pick_mod(), rand_index()
            incoming, args = [x], {"i": jx(i)}
            fn = lambda T: T.insert(i, self.obj[x])
        elif op in ("extend", "iadd"):
            xs = [pick_mod() for _ in range(rnd.randint(0, 3))]
            xs = list(dict.fromkeys(xs))
            if xs and rnd.random() < 0.15:
                xs.insert(rnd.randint(0, len(xs)), rnd.choice(xs))  # twice
            wrap = rnd.choice(ARG_KINDS)
            if rnd.random() < 0.25:
                # the argument is another IR's module list, or this one
                irs = self.lids(["IR"])
                src = rnd.choice(irs)
                xs = list(self.mods[src])
                srcobj = self.obj[src].modules
                wrap = ("owning-list" if src != irl else "itself",
                        lambda objs, srcobj=srcobj: srcobj)
            incoming = xs
            args = {"arg_kind": wrap[0]}
            if op == "extend":
                fn = lambda T: T.extend(wrap[1]([self.obj[x] for x in xs]))
            else:
                def fn(T):
                    T += wrap[1]([self.obj[x] for x in xs])
        elif op == "delitem":
            i = rand_index()
            args = {"i": jx(i)}
            fn = lambda T: T.__delitem__(i)
        elif op == "delslice":
            s = rand_slice()
            args = {"slice": [s.start, s.stop, s.step]}
            fn = lambda T: T.__delitem__(s)
        elif op == "setitem":
            x, i = pick_mod(), rand_index()
            if force:
                i = rnd.randrange(-n, n)
            if type(i) is int and -n <= i < n and rnd.random() < twin_p and \
                    self.twins_of(cur[i]):
                x = rnd.choice(self.twins_of(cur[i]))  # replace by its twin
                self.ctx.count("c16:list_replace_by_twin")
            incoming, args = [x], {"i": jx(i)}
            fn = lambda T: T.__setitem__(i, self.obj[x])
        elif op == "setslice":
            s = rand_slice()
            xs = list(dict.fromkeys(pick_mod() for _ in range(
                rnd.randint(0, 3))))
            if xs and rnd.random() < 0.15:
                xs.insert(rnd.randint(0, len(xs)), rnd.choice(xs))  # twice
            if not force and rnd.random() < 0.5:
                # values taken from the assigned slots themselves: a
                # reordering, or one of them given more than once
                s = rnd.choice([slice(None, None, 2), slice(None, None, -1),
                                slice(1, None, 2), slice(None, None, -2),
                                slice(None), s, s])
                slots = list(cur[s])
                if rnd.random() < 0.5:
                    xs = list(slots)
                    rnd.shuffle(xs)
                elif slots:
                    xs = [rnd.choice(slots) for _ in slots]
                if slots:
                    self.ctx.count("c16:list_setslice_values_from_own_slots")
            if force:
                s = rnd.choice([slice(None), slice(None), slice(
                    rnd.randint(0, n), None), slice(None, rnd.randint(0, n)),
                    slice(None, None, -1), slice(None, None, 2)])
            if rnd.random() < twin_p and cur[s] and all(
                    self.twins_of(x) for x in cur[s]):
                # the replaced modules' twins (another load of the same
                # file), in any order
                xs = [rnd.choice(self.twins_of(x)) for x in cur[s]]
                rnd.shuffle(xs)
                self.ctx.count("c16:list_replace_by_twin")
            wrap = rnd.choice(ARG_KINDS)
            incoming, args = xs, {"slice": [s.start, s.stop, s.step],
                                  "arg_kind": wrap[0]}
            fn = lambda T: T.__setitem__(s, wrap[1](
                [self.obj[x] for x in xs]))
        elif op == "pop":
            fn = lambda T: T.pop()
        elif op == "pop_i":
            i = rand_index()
            args = {"i": jx(i)}
            fn = lambda T: T.pop(i)
        elif op == "remove":
            x = pick_mod()
            args = {"x": x}
            fn = lambda T: T.remove(self.obj[x])
        elif op == "clear":
            fn = lambda T: T.clear()
        elif op == "reverse":
            fn = lambda T: T.reverse()
        elif op == "index":
            x = pick_mod()
            if cur and rnd.random() < 0.6:
                x = rnd.choice(cur)
            args = {"x": x}
            if rnd.random() < 0.5:
                a, b = rand_index(), rand_index()
                # bounds the built-in treats as *explicit* although they are
                # falsy or coincide with a default: 0, len, -len, +-1
                edge = [0, 0, 0, n, -n, 1, -1, n - 1, n + 1]
                if rnd.random() < 0.5:
                    a = rnd.choice(edge)
                if rnd.random() < 0.5:
                    b = rnd.choice(edge)
                args.update(start=jx(a), stop=jx(b))
                fn = lambda T: T.index(self.obj[x], a, b)
            else:
                fn = lambda T: T.index(self.obj[x])
        elif op == "count":
            x = pick_mod()
            args = {"x": x}
            fn = lambda T: T.count(self.obj[x])
        elif op == "getslice":
            s = rand_slice()
            args = {"slice": [s.start, s.stop, s.step]}
            fn = lambda T: list(T[s])
        elif op == "getitem":
            i = rand_index()
            args = {"i": jx(i)}
            fn = lambda T: T[i]
        elif op == "contains":
            x = pick_mod()
            args = {"x": x}
            fn = lambda T: self.obj[x] in T
        elif op == "iter_across_edit":
            # an iterator taken before an edit and consumed after it (a
            # work-list loop that appends while iterating; a loop that
            # removes what it has handled): the built-in's iterators look
            # at the list afresh at every step
            rev = rnd.random() < 0.4
            k = rnd.randint(0, n)
            edit = rnd.choice(["append", "insert", "extend", "pop", "del",
                               "clear", "delslice", "setitem", "setslice",
                               "reverse"])
            xs = [self.make("M") for _ in range(
                {"append": 1, "insert": 1, "extend": 2, "setitem": 1,
                 "setslice": 2}.get(edit, 0))]
            i = rnd.randint(-n - 1, n + 1)
            incoming = xs
            args = {"reversed": rev, "advance": k, "edit": edit, "i": i}

            def fn(T):
                it = reversed(T) if rev else iter(T)
                out = []
                for _ in range(k):
                    try:
                        out.append(next(it))
                    except StopIteration:
                        out.append("stop")
                        break
                try:
                    if edit == "append":
                        T.append(self.obj[xs[0]])
                    elif edit == "insert":
                        T.insert(i, self.obj[xs[0]])
                    elif edit == "extend":
                        T.extend([self.obj[x] for x in xs])
                    elif edit == "pop":
                        T.pop()
                    elif edit == "del":
                        del T[i]
                    elif edit == "clear":
                        T.clear()
                    elif edit == "setitem":
                        T[i] = self.obj[xs[0]]
                    elif edit == "setslice":
                        T[max(0, i):max(0, i) + 1] = [self.obj[x]
                                                      for x in xs]
                    elif edit == "reverse":
                        T.reverse()
                    else:
                        del T[:max(0, i)]
                except IndexError:
                    out.append("edit:IndexError")
                for _ in range(3 * n + 8):
                    try:
                        out.append(next(it))
                    except StopIteration:
                        out.append("stop")
                        break
                    except Exception as e:
                        out.append("raises " + type(e).__name__)
                        break
                return out
        elif op == "iter":
            fn = lambda T: list(iter(T))
        elif op == "reversed":
            fn = lambda T: list(reversed(T))
        mutating = op in ("append", "insert", "extend", "iadd", "delitem",
                          "delslice", "setitem", "setslice", "pop", "pop_i",
                          "remove", "clear", "reverse", "iter_across_edit")
        # classify the incoming values for mechanism naming
        member_in = [x for x in incoming if x in cur]
        klass = "plain"
        if len(set(incoming)) != len(incoming):
            klass = "same-value-twice-in-argument"
            member_in = member_in or [x for x in incoming
                                      if incoming.count(x) > 1]
        elif member_in:
            klass = "value-already-in-same-list"
        elif any(self.parent[x] is not None for x in incoming):
            klass = "value-owned-by-other-ir"
        leaving = []
        if op in ("setitem", "setslice"):
            try:
                probe = list(cur)
                if op == "setitem":
                    leaving = [probe[i]]
                else:
                    leaving = list(probe[s])
                    probe[s] = list(incoming)  # rejected: nothing leaves
            except Exception:
                leaving = []
            leaving = [x for x in leaving if x not in incoming]
        if incoming and not self.can_attach_all(
                [x for x in incoming if x not in cur], irl, leaving):
            self.ctx.count("skipped:uuid-precondition")
            return
        self.log(op="list." + op, ir=irl, incoming=incoming, **args)
        # built-in behaviour
        want_exc = want_ret = None
        try:
            want_ret = fn(blt)
        except Exception as e:
            want_exc = e
        got_exc = got_ret = None
        try:
            got_ret = fn(L)
        except Exception as e:
            got_exc = e
        tag = "list.%s:%s" % (op, klass)
        self.ctx.count("c16:list_ops:" + klass)
        if hostile:
            tag = "list.%s:unusable-index:%s" % (op, klass)
            self.ctx.count("c16:list_ops_unusable_index")
            if got_exc is not None:
                # whatever the type: nothing may have changed (the world
                # check that follows every operation decides the rest)
                self.ctx.count("c16:list_ops_unusable_index_raising")
                actual = [self.of(x) for x in L]
                if actual != cur:
                    self.fail("C16", "%s:failed-but-changed" % tag,
                              "%s raised %s but left %s (was %s)" % (
                                  tag, type(got_exc).__name__, actual, cur))
                return tag + ":raises"
            if want_exc is not None:
                if mutating:
                    self.fail("C16", "%s:succeeds-where-list-raises" % tag,
                              "%s: built-in list raises %s, ir.modules "
                              "succeeds" % (tag, type(want_exc).__name__))
                return tag + ":lenient"
        if (want_exc is None) != (got_exc is None) or (
                want_exc is not None and
                type(got_exc) is not type(want_exc)):
            # built-in raised X, implementation raised Y / nothing
            self.case.ops[-1]["builtin"] = repr(want_exc)
            self.case.ops[-1]["actual"] = repr(got_exc)
            # state must still be consistent: checked below before failing
            try:
                self.sync_list_after_failure(irl, cur)
            finally:
                pass
            self.fail("C16", "%s:exception-differs" % tag,
                      "%s: built-in list %s, ir.modules %s" % (
                          tag,
                          "raises " + type(want_exc).__name__
                          if want_exc else "succeeds",
                          "raises %s: %s" % (type(got_exc).__name__,
                                             str(got_exc)[:80])
                          if got_exc else "succeeds"))
        if want_exc is not None:
            # both raised the same type: nothing may have changed
            self.ctx.count("c16:list_ops_raising")
            return tag + ":raises"
        # return values
        def norm(r):
            if isinstance(r, gt.Node):
                return self.of(r)
            if isinstance(r, list):
                return [self.of(x) if isinstance(x, gt.Node) else x
                        for x in r]
            return r
        if norm(got_ret) != norm(want_ret):
            if not (mutating and member_in):
                self.fail("C16", "%s:return-value" % tag,
                          "%s returned %r, the built-in list returns %r"
                          % (tag, norm(got_ret), norm(want_ret)))
        if not mutating:
            self.ctx.count("c16:list_query_comparisons")
            return tag
        # resulting contents
        want_list = [self.of(x) for x in blt]
        actual = [self.of(x) for x in L]
        if not member_in and len(set(want_list)) == len(want_list):
            if actual != want_list:
                self.fail("C16", "%s:contents" % tag,
                          "%s left %s, the built-in list gives %s"
                          % (tag, actual, want_list))
        else:
            # same-list re-insertion: weak contract (move, not duplicate)
            untouched = [x for x in cur if x not in incoming and
                         x in want_list]
            ok = (len(set(actual)) == len(actual) and
                  set(actual) == set(want_list) and
                  [x for x in actual if x in untouched] == untouched)
            if not ok:
                self.fail("C16", "%s:contents" % tag,
                          "%s left %s; built-in result de-duplicated would "
                          "hold exactly %s with the untouched elements %s "
                          "in that order" % (tag, actual,
                                             sorted(set(want_list)),
                                             untouched))
        # model update: everything in `actual` belongs to this IR now
        for x in cur:
            if x not in actual:
                self.detach_model(x)
        for x in actual:
            if self.parent[x] != irl:
                self.attach_model(x, irl)
                self.ctx.count("moves")
        self.mods[irl] = list(actual)
        self.ctx.count("relation:IR.modules:collection-side")
        return tag

    def sync_list_after_failure(self, irl, cur):
        pass

    # ---- move away and come back -----------------------------------------
    def move(self, c, p, route):
        """Move child c to parent p (or detach) through one public route."""
        k = self.kind[c]
        pk, attr, coll = REL[k]
        o = self.obj[c]
        self.log(op="move", child=c, parent=p, route=route)
        if p is None:
            if route == "attr" or self.parent[c] is None:
                setattr(o, attr, None)
            else:
                C = getattr(self.obj[self.parent[c]], coll)
                if k == "M":
                    C.remove(o)
                else:
                    C.discard(o)
            self.detach_model(c)
            return
        P = getattr(self.obj[p], coll)
        if route == "attr":
            setattr(o, attr, self.obj[p])
        elif k == "M":
            {"add": P.append, "update": lambda x: P.extend([x]),
             "ior": lambda x: P.insert(0, x)}[route](o)
            if route == "ior":
                self.detach_model(c)
                self.parent[c] = p
                self.mods[p].insert(0, c)
                return
        elif route == "add":
            P.add(o)
        elif route == "update":
            P.update([o])
        else:
            P |= {o}
        self.attach_model(c, p)

    def op_pingpong(self):
        """A node leaves its parent for another one (or for none) and comes
        back, each leg through a random route; nothing else is touched in
        between (indexes keyed by the node must survive the round trip)."""
        rnd = self.rnd
        cands = [c for c in self.lids("MSYPICD") if self.parent[c]]
        if not cands:
            return
        c = rnd.choice(cands)
        home = self.parent[c]
        pk = REL[self.kind[c]][0]
        away = rnd.choice([x for x in self.lids([pk]) if x != home] + [None])
        if away is not None and not self.can_attach(c, away):
            self.ctx.count("skipped:uuid-precondition")
            return
        routes = ["attr", "add", "update", "ior"]
        self.move(c, away, rnd.choice(routes))
        self.verify("pingpong:out:" + RELNAME[self.kind[c]])
        if not self.can_attach(c, home):
            return "pingpong:half"
        self.move(c, home, rnd.choice(routes))
        self.ctx.count("pingpongs")
        return "pingpong:" + RELNAME[self.kind[c]]

    def op_bulk(self):
        """One call that brings tens of nodes at once (update / |= /
        constructor argument), some fresh, some owned by a sibling parent of
        the same IR, some owned elsewhere."""
        rnd, gt = self.rnd, self.gt
        if len(self.obj) > 120 or getattr(self, "_bulk_done", 0) >= 1:
            return
        self._bulk_done = 1
        pk, coll, ck = rnd.choice(SET_RELS)
        ps = self.lids(pk)
        if not ps:
            return
        p = rnd.choice(ps)
        n = rnd.choice([5, 20, 33, 34, 40, 66])
        donor = rnd.choice(ps)
        batch = []
        for i in range(n):
            k = rnd.choice(ck)
            kr = rnd.random()
            if kr < 0.5 and donor != p:
                batch.append(self.make(k, parent=donor, via_ctor=True))
            elif kr < 0.8:
                batch.append(self.make(k))
            else:
                batch.append(self.make(k, parent=rnd.choice(ps),
                                       via_ctor=True))
        batch = [b for b in batch if self.parent[b] != p]
        if not self.can_attach_all(batch, p):
            self.ctx.count("skipped:uuid-precondition")
            return
        objs = [self.obj[b] for b in batch]
        how = rnd.choice(["update", "ior", "update-iter", "update-2"])
        self.log(op="bulk." + how, parent=p, coll=coll, n=len(batch))
        S = getattr(self.obj[p], coll)
        if how == "update":
            S.update(objs)
        elif how == "ior":
            S |= set(objs)
        elif how == "update-iter":
            S.update(iter(objs))
        else:
            h = len(objs) // 2
            S.update(objs[:h], objs[h:])
        for b in batch:
            self.attach_model(b, p)
        self.ctx.count("bulk_ops")
        self.ctx.count("moves", len(batch))
        return "bulk.%s:%s" % (how, RELNAME[ck[0]])

    # ---- constructors that steal children ----------------------------
    def op_ctor(self):
        rnd, gt = self.rnd, self.gt
        k = rnd.choice("MSICDPY")
        pk = REL[k][0]
        parents = self.lids([pk])
        extra, stolen, stolen_attr = {}, [], None
        if k == "S" and rnd.random() < 0.5:
            stolen = [x for x in self.pick_others("I", None) ]
            stolen_attr = "byte_intervals"
        elif k == "I" and rnd.random() < 0.5:
            stolen = self.pick_others("CD", None)
            stolen_attr = "blocks"
        elif k == "M" and rnd.random() < 0.5:
            which = rnd.choice(["sections", "symbols", "proxies"])
            stolen = self.pick_others({"sections": "S", "symbols": "Y",
                                       "proxies": "P"}[which], None)
            stolen_attr = which
        p = rnd.choice(parents) if parents and rnd.random() < 0.7 else None
        if stolen:
            uu = []
            for x in stolen:
                uu += [self.obj[y].uuid for y in self.subtree(x)]
            if len(uu) != len(set(uu)):
                return
            if p is not None and not self.can_attach_all(stolen, p):
                self.ctx.count("skipped:uuid-precondition")
                return
            extra[stolen_attr] = rnd.choice([list, set, iter])(
                [self.obj[x] for x in stolen])
            # sometimes hand over another parent's live collection itself
            donors = [q for q in self.lids([k]) if self.children(
                q, {"sections": "S", "symbols": "Y", "proxies": "P",
                    "byte_intervals": "I", "blocks": "CD"}[stolen_attr])]
            if donors and rnd.random() < 0.3:
                q = rnd.choice(donors)
                cand = self.children(q, {"sections": "S", "symbols": "Y",
                                         "proxies": "P",
                                         "byte_intervals": "I",
                                         "blocks": "CD"}[stolen_attr])
                if p is None or self.can_attach_all(cand, p):
                    stolen = cand
                    extra[stolen_attr] = getattr(self.obj[q], stolen_attr)
                    self.ctx.count("ctor:children-from-live-collection")
        if k == "Y" and rnd.random() < 0.6:
            blocks = self.lids("CDP")
            extra["payload_lid"] = rnd.choice(
                blocks + [0, 7]) if blocks else rnd.choice([0, 7])
        self.log(op="ctor", kind=k, parent=p, stolen=stolen)
        lid = self.make(k, parent=p, via_ctor=True, **extra)
        for x in stolen:
            self.attach_model(x, lid)
            self.ctx.count("moves")
        self.case.ops[-1]["new"] = lid
        self.ctx.count("relation:%s:constructor" % RELNAME[k])
        return "ctor:" + RELNAME[k]

    # ---- symbol edits (C10) ---------------------------------------------
    def op_symbol(self):
        rnd = self.rnd
        ys = self.lids("Y")
        if not ys:
            return self.op_ctor()
        y = rnd.choice(ys)
        o = self.obj[y]
        a = self.attrs[y]
        op = rnd.choice(["rename", "referent", "value", "referent_none",
                         "value_none", "at_end"])
        old = a["payload"]
        if op == "rename":
            nm = fresh(rnd.choice(NAMES))
            self.log(op="sym.rename", sym=y, name=nm)
            o.name = nm
            a["name"] = nm
            return "sym.rename"
        if op == "at_end":
            self.log(op="sym.at_end", sym=y)
            o.at_end = not o.at_end
            a["at_end"] = o.at_end
            return "sym.at_end"
        if op == "referent":
            blocks = self.lids("CDP")
            if not blocks:
                return
            mine = [b for b in blocks if self.parent[y] is not None and
                    self.module_of(b) == self.parent[y]]
            b = rnd.choice(mine) if mine and rnd.random() < 0.7 \
                else rnd.choice(blocks)
            self.log(op="sym.referent", sym=y, block=b)
            o.referent = self.obj[b]
            a["payload"] = b
        elif op == "value":
            v = rnd.choice([0, 0, 1, 2 ** 64 - 1])
            self.log(op="sym.value", sym=y, value=v)
            o.value = v
            a["payload"] = v
        elif op == "referent_none":
            self.log(op="sym.referent=None", sym=y)
            o.referent = None
            a["payload"] = None
        else:
            self.log(op="sym.value=None", sym=y)
            o.value = None
            a["payload"] = None
        new = a["payload"]

        def cls(p):
            return "none" if p is None else ("block" if isinstance(p, str)
                                             else ("zero" if p == 0 else
                                                   "int"))
        self.ctx.count("c10:payload_transition:%s->%s" % (cls(old), cls(new)))
        return "sym.payload"

    # ---- attribute edits on arbitrary nodes (isolation) -----------------
    def op_attr(self):
        rnd, gt = self.rnd, self.gt
        l = rnd.choice(self.lids("MSICD") + self.lids(["IR"]))
        o, k, a = self.obj[l], self.kind[l], self.attrs[l]
        if k == "S":
            if rnd.random() < 0.5:
                f = rnd.choice(list(gt.Section.Flag))
                self.log(op="attr.flag", node=l, flag=f.name)
                if f in o.flags:
                    o.flags.discard(f)
                else:
                    o.flags.add(f)
                a["flags"] = frozenset(x.name for x in o.flags) if False \
                    else (a["flags"] ^ {f.name})
            else:
                nm = fresh(rnd.choice(NAMES))
                self.log(op="attr.name", node=l, name=nm)
                o.name = nm
                a["name"] = nm
        elif k == "M":
            which = rnd.choice(["name", "aux"])
            if which == "name":
                nm = fresh(rnd.choice(NAMES))
                self.log(op="attr.name", node=l, name=nm)
                o.name = nm
                a["name"] = nm
            else:
                key = rnd.choice(["k1", "k2"])
                self.log(op="attr.aux", node=l, key=key)
                if key in o.aux_data:
                    del o.aux_data[key]
                else:
                    o.aux_data[key] = gt.AuxData(1, "uint8_t")
                a["aux_keys"] = sorted(set(a.get("aux_keys", [])) ^ {key})
        elif k == "IR":
            key = rnd.choice(["k1", "k2"])
            self.log(op="attr.aux", node=l, key=key)
            if key in o.aux_data:
                del o.aux_data[key]
            else:
                o.aux_data[key] = gt.AuxData(1, "uint8_t")
            a["aux_keys"] = sorted(set(a.get("aux_keys", [])) ^ {key})
        elif k == "I":
            if rnd.random() < 0.5:
                v = rnd.choice([None, rnd.randint(0, 40)])
                self.log(op="attr.address", node=l, value=v)
                o.address = v
                a["address"] = v
            else:
                v = max(len(o.contents), rnd.randint(0, 12))
                self.log(op="attr.size", node=l, value=v)
                o.size = v
                a["size"] = v
        else:
            f = rnd.choice(["offset", "size"])
            v = rnd.randint(0, 10)
            self.log(op="attr." + f, node=l, value=v)
            setattr(o, f, v)
            a[f] = v
        return "attr"

    # ---- save -> load: the loaded IR joins the world -------------------
    def op_load(self, src=None):
        gt, rnd = self.gt, self.rnd
        irs = self.lids(["IR"])
        if src is None:
            if len(irs) >= 5:
                return
            src = rnd.choice(irs)
        o = self.obj[src]
        # a file needs self-contained references: symbols whose referent is
        # outside this IR would make load fail by design
        for y in self.subtree(src):
            if self.kind[y] == "Y":
                p = self.attrs[y]["payload"]
                if isinstance(p, str) and \
                        self.module_of(p) != self.parent[y]:
                    return
        self.log(op="save_load", ir=src)
        raw = irio.save(o)
        new = irio.load(gt, raw)
        self.adopt(new)
        self.ctx.count("loads")
        return "save_load"

    def adopt(self, ir):
        gt = self.gt
        irl = self.register(ir, "IR", None, {
            "aux_keys": sorted(ir.aux_data)})
        for m in ir.modules:
            ml = self.register(m, "M", irl, {
                "name": m.name, "aux_keys": sorted(m.aux_data)})
            for s in m.sections:
                sl = self.register(s, "S", ml, {
                    "name": s.name,
                    "flags": frozenset(f.name for f in s.flags)})
                for bi in s.byte_intervals:
                    il = self.register(bi, "I", sl, {
                        "address": bi.address, "size": bi.size})
                    for b in bi.blocks:
                        self.register(b, "C" if isinstance(b, gt.CodeBlock)
                                      else "D", il,
                                      {"offset": b.offset, "size": b.size})
            for p in m.proxies:
                self.register(p, "P", ml, {})
        for m in ir.modules:
            ml = self.of(m)
            for y in m.symbols:
                pay = y.referent if y.referent is not None else y.value
                self.register(y, "Y", ml, {
                    "name": y.name, "at_end": y.at_end,
                    "payload": self.of(pay) if isinstance(pay, gt.Node)
                    else pay})

    def op_readd_during_iteration(self):
        """Members are added again (a no-op for a set) while somebody is in
        the middle of iterating over the collection, after some churn that
        left the underlying table with freed slots."""
        rnd = self.rnd
        pk, coll, ck = rnd.choice(SET_RELS)
        ps = [p for p in self.lids(pk) if self.children(p, ck)]
        if not ps:
            return
        p = rnd.choice(ps)
        S = getattr(self.obj[p], coll)
        temps = [self.make(rnd.choice(ck)) for _ in range(rnd.randint(2, 9))]
        if not self.can_attach_all(temps, p):
            return
        self.log(op="readd_during_iteration", parent=p, coll=coll,
                 churn=len(temps))
        S.update([self.obj[x] for x in temps])
        for x in temps:
            S.discard(self.obj[x])
        members = self.children(p, ck)
        it = iter(S)
        seen = [self.of(next(it)) for _ in range(rnd.randint(0, len(members)))]
        route = rnd.choice(["add", "update", "ior", "attr"])
        again = rnd.sample(members, rnd.randint(1, len(members)))
        objs = [self.obj[x] for x in again]
        if route == "add":
            for o in objs:
                S.add(o)
        elif route == "update":
            S.update(objs)
        elif route == "ior":
            S |= set(objs)
        else:
            attr = REL[self.kind[again[0]]][1]
            for o in objs:
                setattr(o, attr, self.obj[p])
        rest = [self.of(x) for x in it]
        self.ctx.count("c16:readd_during_iteration")
        if collections.Counter(seen + rest) != collections.Counter(members):
            self.fail("C16", "set.readd:%s:iterator-broken-by-noop:%s" % (
                RELNAME[ck[0]], route),
                "members of %s.%s were added again (%s) while an iterator "
                "was half-way: it yielded %s in all, the members are %s"
                % (p, coll, route, sorted(seen + rest), sorted(members)))
        return "readd_during_iteration:" + RELNAME[ck[0]]

    def op_reuuid(self):
        """A node with no parent (its subtree is then in no IR) is given
        another UUID: everything that refers to it refers to the object."""
        loose = [x for x in self.lids("MSYPICD")
                 if self.parent.get(x) is None]
        if not loose:
            return
        x = self.rnd.choice(loose)
        self.log(op="reuuid", node=x)
        self.obj[x].uuid = self.new_uuid()
        return "reuuid:" + self.kind[x]

    # ---- last step of a history -------------------------------------------
    def terminal_step(self):
        """A block whose size the schema cannot express (-1) is put into an
        interval of an IR, alone or in one batch with ordinary blocks.
        Whether the API takes it is its own business (today it does; a
        stricter release may refuse); what the properties ask is that after
        a refusal nothing is left registered, listed or half-moved. Nothing
        follows but the final check, because address lookups over such a
        block are outside every property."""
        rnd, gt = self.rnd, self.gt
        ivs = [x for x in self.lids("I") if self.ir_of(x) is not None]
        if not ivs:
            return
        p = rnd.choice(ivs)
        odd = self.register(
            (gt.CodeBlock if rnd.random() < 0.5 else gt.DataBlock)(
                offset=rnd.randint(0, 5), size=-1, uuid=self.new_uuid()),
            "C", None, {"offset": 0, "size": -1})
        self.kind[odd] = "C" if isinstance(self.obj[odd],
                                           gt.CodeBlock) else "D"
        self.attrs[odd]["offset"] = self.obj[odd].offset
        mates = [x for x in self.pick_others("CD", p)
                 if self.parent.get(x) != p][:rnd.randint(0, 3)]
        if mates and not self.can_attach_all(mates, p):
            mates = []
        batch = [odd] + mates
        rnd.shuffle(batch)
        route = rnd.choice(["update", "add", "attr", "ior"]) \
            if not mates else rnd.choice(["update", "ior"])
        self.log(op="terminal:inexpressible-size", parent=p, batch=batch,
                 route=route)
        S = self.obj[p].blocks
        objs = [self.obj[x] for x in batch]
        try:
            if route == "update":
                S.update(objs)
            elif route == "ior":
                S |= set(objs)
            elif route == "add":
                S.add(objs[0])
            else:
                objs[0].byte_interval = self.obj[p]
            self.ctx.count("terminal:inexpressible-size:accepted")
        except Exception as e:
            self.ctx.count("terminal:inexpressible-size:refused")
            self.ctx.seen("terminal_refusals", type(e).__name__)
        for x in batch:
            now_in = self.obj[x] in S
            if now_in and self.parent.get(x) != p:
                if self.parent.get(x) is not None:
                    self.detach_model(x)
                self.attach_model(x, p)
            # not taken: the model keeps it where it was
        self.verify("terminal:inexpressible-size")

    # ---- driver ----------------------------------------------------------
    def seed_world(self, nirs):
        rnd = self.rnd
        irs = [self.make("IR") for _ in range(nirs)]
        for _ in range(rnd.randint(2, 4)):
            self.make("M", parent=rnd.choice(irs), via_ctor=True)
        for k in "SSYPPIICDCD":
            ps = self.lids([REL[k][0]])
            if ps:
                self.make(k, parent=rnd.choice(ps), via_ctor=True)
        self.verify("initial construction")

    def step(self, weights):
        ops = []
        for name, w in weights.items():
            ops += [name] * w
        name = self.rnd.choice(ops)
        tag = getattr(self, "op_" + name)()
        self.steps += 1
        if tag:
            self.ctx.seen("op_kinds", tag)
            self.verify(tag)
            return tag


WEIGHTS = {
    "C03": {"reuuid": 1, "twin_replace": 2, "set_parent": 5, "set_mutation": 6, "list": 4, "ctor": 3,
            "symbol": 1, "attr": 1, "load": 1, "set_query": 1,
            "pingpong": 3, "bulk": 1},
    "C04": {"reuuid": 1, "readd_during_iteration": 2, "twin_replace": 2, "set_parent": 6, "set_mutation": 5, "list": 5,
            "ctor": 4,
            "symbol": 1, "attr": 4, "load": 1, "set_query": 1,
            "pingpong": 3, "bulk": 1},
    "C10": {"reuuid": 1, "set_parent": 4, "set_mutation": 4, "list": 2, "ctor": 3,
            "symbol": 8, "attr": 1, "load": 1, "set_query": 0,
            "pingpong": 6, "bulk": 0},
    "C16": {"reuuid": 1, "readd_during_iteration": 2, "twin_replace": 2, "set_parent": 2, "set_mutation": 6, "list": 7,
            "ctor": 2,
            "symbol": 1, "attr": 1, "load": 0, "set_query": 6,
            "pingpong": 1, "bulk": 1},
}


def run_history(ctx, case, gt, prop, nops):
    rnd = case.rnd
    w = World(gt, rnd, ctx, case)
    w.seed_world(rnd.choice([2, 2, 3]))
    done = 0
    for _ in range(nops):
        if w.step(WEIGHTS[prop]):
            done += 1
    if prop in ("C03", "C04", "C16") and rnd.random() < 0.25:
        w.terminal_step()
    ctx.count("history_ops", done)
    ctx.seen("nontrivial", [
        {k: v for k, v in op.items()} for op in case.ops])
    return w
