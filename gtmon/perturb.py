"""Single-field perturbations of a spec, generated from the spec's own
structure (every scalar of every node kind, every add/remove of a child,
edge, expression, flag, attribute, AuxData key, every UUID, block kind with
UUID kept).  Each perturbation keeps the spec self-contained and buildable.

perturbations(spec, rnd, gt) -> list of (label, thunk); thunk() -> new spec
or None when not applicable
"""
import copy

from . import contract, spec as gspec

U64 = (1 << 64) - 1
ENUM_FIELD = {"isa": "ISA", "file_format": "FileFormat",
              "byte_order": "ByteOrder", "decode_mode": "DecodeMode"}


def referenced_uuids(sp):
    refs = set()
    for m in sp["modules"]:
        if m["entry_point"]:
            refs.add(m["entry_point"])
        for y in m["symbols"]:
            if y["payload"] and "ref" in y["payload"]:
                refs.add(y["payload"]["ref"])
        for s in m["sections"]:
            for bi in s["intervals"]:
                for e in bi["exprs"].values():
                    refs.add(e["sym"])
                    if "sym2" in e:
                        refs.add(e["sym2"])
    for e in sp["edges"]:
        refs.add(e["src"])
        refs.add(e["tgt"])
    return refs


def subtree_uuids(kind, node):
    out = {node["uuid"]}
    for key in ("proxies", "symbols", "sections", "intervals", "blocks"):
        for c in node.get(key, []):
            out |= subtree_uuids(key, c)
    return out


def rename_uuid(sp, old, new):
    def walk(x):
        if isinstance(x, dict):
            return {k: walk(v) for k, v in x.items()}
        if isinstance(x, list):
            return [walk(v) for v in x]
        return new if x == old else x
    return walk(sp)


def other_int(v, lo=0, hi=U64):
    return v + 1 if v < hi else v - 1


_M61 = (1 << 61) - 1


def hash_twin(v, signed):
    """Another integer of the field's range with the same CPython hash
    (hash(-1) == hash(-2); otherwise |v| +- (2**61 - 1)), or None."""
    if v == -1:
        return -2
    if v == -2:
        return -1
    lo, hi = (-(1 << 63), (1 << 63) - 1) if signed else (0, U64)
    for w in ((v + _M61, v + 2 * _M61) if v >= 0 else (v - _M61,)) + (
            (v - _M61,) if v >= _M61 else ()):
        if lo <= w <= hi and hash(w) == hash(v):
            return w
    return None


def perturbations(sp, rnd, gt):
    E = contract.ENUMS
    out = []
    refs = referenced_uuids(sp)
    us = gspec.UuidSource(rnd)
    us.used = set(gspec.node_uuids(sp))

    def emit(label, fn):
        def thunk(fn=fn):
            s2 = copy.deepcopy(sp)
            r = fn(s2)
            if r is False:
                return None
            return r if isinstance(r, dict) else s2
        out.append((label, thunk))

    def locate(s2, path):
        x = s2
        for p in path:
            x = x[p]
        return x

    def scalar_fields(kind, node, path):
        for key, v in node.items():
            if key in ("uuid", "kind", "aux", "payload", "contents",
                       "entry_point", "flags"):
                continue
            if isinstance(v, (list, dict)):
                continue
            label = "%s.%s" % (kind, key)
            if key in ENUM_FIELD:
                vals = sorted(E[ENUM_FIELD[key]].values())
                emit(label, lambda s2, p=path, k=key, vals=vals:
                     locate(s2, p).__setitem__(
                         k, rnd.choice([x for x in vals
                                        if x != locate(s2, p)[k]])))
            elif isinstance(v, bool):
                emit(label, lambda s2, p=path, k=key:
                     locate(s2, p).__setitem__(k, not locate(s2, p)[k]))
            elif isinstance(v, int):
                if kind == "interval" and key == "size":
                    emit(label, lambda s2, p=path:
                         locate(s2, p).__setitem__(
                             "size", locate(s2, p)["size"] + 1))
                elif key in ("rebase_delta",) or (kind == "expr"):
                    emit(label, lambda s2, p=path, k=key:
                         locate(s2, p).__setitem__(
                             k, locate(s2, p)[k] + 1
                             if locate(s2, p)[k] < (1 << 63) - 1
                             else locate(s2, p)[k] - 1))
                else:
                    emit(label, lambda s2, p=path, k=key:
                         locate(s2, p).__setitem__(
                             k, other_int(locate(s2, p)[k])))
                # equal hash, different value: an equality short-cut
                # through hash() must not make the two equal
                tw = hash_twin(v, signed=(kind == "expr"))
                if tw is not None:
                    emit(label + ":hash-twin", lambda s2, p=path, k=key,
                         tw=tw: locate(s2, p).__setitem__(k, tw))
                if key == "address":
                    emit(label + ":to-None", lambda s2, p=path:
                         locate(s2, p).__setitem__("address", None))
            elif isinstance(v, str):
                emit(label, lambda s2, p=path, k=key:
                     locate(s2, p).__setitem__(k, locate(s2, p)[k] + "x"))
            elif v is None and key == "address":
                emit(label + ":None-to-0", lambda s2, p=path:
                     locate(s2, p).__setitem__("address", 0))

    # IR level
    emit("ir.version", lambda s2: s2.__setitem__("version", 5))
    emit("ir.uuid", lambda s2: rename_uuid(s2, s2["uuid"], us.new()))
    emit("ir.aux:add-key", lambda s2: s2["aux"].__setitem__(
        "added-key", {"type": "uint8_t", "pv": 1}))
    if sp["aux"]:
        emit("ir.aux:remove-key", lambda s2: s2["aux"].pop(
            sorted(s2["aux"])[0]) and None)
    # edges
    cfgn = [u for u, k in gspec.kinds(sp).items() if k in ("code", "proxy")]
    if cfgn:
        def add_edge(s2):
            e = {"src": rnd.choice(cfgn), "tgt": rnd.choice(cfgn),
                 "label": {"type": "Branch", "conditional": True,
                           "direct": False}}
            keys = {(x["src"], x["tgt"], repr(x["label"]))
                    for x in s2["edges"]}
            if (e["src"], e["tgt"], repr(e["label"])) in keys:
                return False
            s2["edges"].append(e)
        emit("edge:add", add_edge)
    for i, e in enumerate(sp["edges"][:6]):
        def uniq(s2):
            keys = [(x["src"], x["tgt"], repr(x["label"]))
                    for x in s2["edges"]]
            return None if len(keys) == len(set(keys)) else False
        emit("edge:remove", lambda s2, i=i: s2["edges"].pop(i) and None)
        if e["label"] is None:
            def lab(s2, i=i):
                s2["edges"][i]["label"] = {"type": "Branch",
                                           "conditional": False,
                                           "direct": False}
                return uniq(s2)
            emit("edge.label:None-to-all-false", lab)
        else:
            def nolab(s2, i=i):
                s2["edges"][i]["label"] = None
                return uniq(s2)
            emit("edge.label:to-None", nolab)
            for f in ("conditional", "direct"):
                def flip(s2, i=i, f=f):
                    s2["edges"][i]["label"][f] = \
                        not s2["edges"][i]["label"][f]
                    return uniq(s2)
                emit("edge.label." + f, flip)

            def ty(s2, i=i):
                vals = sorted(E["EdgeType"].values())
                cur = s2["edges"][i]["label"]["type"]
                s2["edges"][i]["label"]["type"] = rnd.choice(
                    [v for v in vals if v != cur])
                return uniq(s2)
            emit("edge.label.type", ty)
        others = [u for u in cfgn if u != e["tgt"]]
        if others:
            def retarget(s2, i=i, others=others):
                s2["edges"][i]["tgt"] = rnd.choice(others)
                return uniq(s2)
            emit("edge.target", retarget)
        others = [u for u in cfgn if u != e["src"]]
        if others:
            def resource(s2, i=i, others=others):
                s2["edges"][i]["src"] = rnd.choice(others)
                return uniq(s2)
            emit("edge.source", resource)

    for mi, m in enumerate(sp["modules"]):
        mp = ["modules", mi]
        scalar_fields("module", m, mp)
        emit("module.uuid", lambda s2, u=m["uuid"]:
             rename_uuid(s2, u, us.new()))
        emit("module.aux:add-key", lambda s2, p=mp: locate(s2, p)[
            "aux"].__setitem__("added-key", {"type": "uint8_t", "pv": 1}))
        if m["aux"]:
            emit("module.aux:remove-key", lambda s2, p=mp: locate(s2, p)[
                "aux"].pop(sorted(locate(s2, p)["aux"])[0]) and None)
            emit("module.aux:change-value-only", lambda s2, p=mp: locate(
                s2, p)["aux"].__setitem__(sorted(locate(s2, p)["aux"])[0],
                                          {"type": "uint8_t", "pv": 200}))
        code = [b["uuid"] for s in m["sections"] for bi in s["intervals"]
                for b in bi["blocks"] if b["kind"] == "code"]
        if m["entry_point"]:
            emit("module.entry_point:to-None", lambda s2, p=mp:
                 locate(s2, p).__setitem__("entry_point", None))
            oth = [c for c in code if c != m["entry_point"]]
            if oth:
                emit("module.entry_point:other", lambda s2, p=mp, oth=oth:
                     locate(s2, p).__setitem__("entry_point",
                                               rnd.choice(oth)))
        elif code:
            emit("module.entry_point:None-to-block", lambda s2, p=mp,
                 code=code: locate(s2, p).__setitem__("entry_point",
                                                      rnd.choice(code)))
        # children add
        emit("module:add-proxy", lambda s2, p=mp: locate(s2, p)[
            "proxies"].append({"uuid": us.new()}))
        emit("module:add-section", lambda s2, p=mp: locate(s2, p)[
            "sections"].append({"uuid": us.new(), "name": "new",
                                "flags": [], "intervals": []}))
        emit("module:add-symbol", lambda s2, p=mp: locate(s2, p)[
            "symbols"].append({"uuid": us.new(), "name": "new",
                               "at_end": False, "payload": None}))
        blocks = [b["uuid"] for s in m["sections"] for bi in s["intervals"]
                  for b in bi["blocks"]] + [p["uuid"] for p in m["proxies"]]
        for pi, p in enumerate(m["proxies"][:3]):
            emit("proxy.uuid", lambda s2, u=p["uuid"]:
                 rename_uuid(s2, u, us.new()))
            if p["uuid"] not in refs:
                emit("module:remove-proxy", lambda s2, pth=mp, pi=pi:
                     locate(s2, pth)["proxies"].pop(pi) and None)
        for yi, y in enumerate(m["symbols"][:5]):
            yp = mp + ["symbols", yi]
            scalar_fields("symbol", y, yp)
            emit("symbol.uuid", lambda s2, u=y["uuid"]:
                 rename_uuid(s2, u, us.new()))
            if y["uuid"] not in refs:
                emit("module:remove-symbol", lambda s2, pth=mp, yi=yi:
                     locate(s2, pth)["symbols"].pop(yi) and None)
            pay = y["payload"]
            cands = [None, {"value": 0}, {"value": 1}]
            if blocks:
                cands.append({"ref": rnd.choice(blocks)})
                if pay and "ref" in pay and len(blocks) > 1:
                    cands.append({"ref": rnd.choice(
                        [b for b in blocks if b != pay["ref"]])})
            for c in cands:
                if c != pay:
                    kindlab = "None" if c is None else \
                        ("value%d" % c["value"] if "value" in c else "ref")
                    emit("symbol.payload:to-" + kindlab,
                         lambda s2, p=yp, c=c:
                         locate(s2, p).__setitem__("payload", c))
        syms = [y["uuid"] for y in m["symbols"]]
        for si, s in enumerate(m["sections"][:4]):
            sp_ = mp + ["sections", si]
            scalar_fields("section", s, sp_)
            emit("section.uuid", lambda s2, u=s["uuid"]:
                 rename_uuid(s2, u, us.new()))
            if not (subtree_uuids("section", s) & refs):
                emit("module:remove-section", lambda s2, pth=mp, si=si:
                     locate(s2, pth)["sections"].pop(si) and None)
            allf = sorted(E["SectionFlag"].values())
            missing = [f for f in allf if f not in s["flags"]]
            if missing:
                emit("section.flags:add", lambda s2, p=sp_, missing=missing:
                     locate(s2, p)["flags"].append(rnd.choice(missing)))
            if s["flags"]:
                emit("section.flags:remove", lambda s2, p=sp_:
                     locate(s2, p)["flags"].pop(0) and None)
            emit("section:add-interval", lambda s2, p=sp_: locate(s2, p)[
                "intervals"].append({"uuid": us.new(), "address": None,
                                     "size": 0, "contents": "",
                                     "blocks": [], "exprs": {}}))
            for bii, bi in enumerate(s["intervals"][:4]):
                bp = sp_ + ["intervals", bii]
                scalar_fields("interval", bi, bp)
                emit("interval.uuid", lambda s2, u=bi["uuid"]:
                     rename_uuid(s2, u, us.new()))
                if not (subtree_uuids("interval", bi) & refs):
                    emit("section:remove-interval", lambda s2, p=sp_,
                         bii=bii: locate(s2, p)["intervals"].pop(bii)
                         and None)
                if bi["contents"]:
                    def chg(s2, p=bp):
                        b = bytearray(bytes.fromhex(locate(s2, p)[
                            "contents"]))
                        b[0] ^= 0x41
                        locate(s2, p)["contents"] = bytes(b).hex()
                    emit("interval.contents:byte", chg)
                    emit("interval.contents:shorter", lambda s2, p=bp:
                         locate(s2, p).__setitem__(
                             "contents", locate(s2, p)["contents"][:-2]))
                if len(bi["contents"]) // 2 < bi["size"]:
                    emit("interval.contents:longer", lambda s2, p=bp:
                         locate(s2, p).__setitem__(
                             "contents", locate(s2, p)["contents"] + "00"))
                emit("interval:add-block", lambda s2, p=bp: locate(s2, p)[
                    "blocks"].append({"uuid": us.new(), "kind": "data",
                                      "offset": 0, "size": 0}))
                for bli, b in enumerate(bi["blocks"][:4]):
                    blp = bp + ["blocks", bli]
                    scalar_fields(b["kind"], b, blp)
                    emit("block.uuid", lambda s2, u=b["uuid"]:
                         rename_uuid(s2, u, us.new()))
                    if b["uuid"] not in refs:
                        emit("interval:remove-block", lambda s2, p=bp,
                             bli=bli: locate(s2, p)["blocks"].pop(bli)
                             and None)
                    cfg_ref = b["uuid"] == m["entry_point"] or any(
                        b["uuid"] in (e["src"], e["tgt"])
                        for e in sp["edges"])
                    if b["kind"] == "data":
                        def to_code(s2, p=blp):
                            x = locate(s2, p)
                            x["kind"] = "code"
                            x["decode_mode"] = "Default"
                        emit("block.kind:data-to-code-same-uuid", to_code)
                    elif not cfg_ref:
                        def to_data(s2, p=blp):
                            x = locate(s2, p)
                            x["kind"] = "data"
                            x.pop("decode_mode")
                        emit("block.kind:code-to-data-same-uuid", to_data)
                if syms:
                    def add_expr(s2, p=bp, syms=syms):
                        ex = locate(s2, p)["exprs"]
                        off = 0
                        while off in ex or str(off) in ex:
                            off += 1
                        ex[off] = {"kind": "const", "offset": 0,
                                   "sym": rnd.choice(syms), "attrs": []}
                    emit("interval:add-expr", add_expr)
                for off in list(bi["exprs"])[:3]:
                    ep = bp + ["exprs", off]
                    e = bi["exprs"][off]
                    scalar_fields("expr", {k: v for k, v in e.items()
                                           if k not in ("kind", "sym",
                                                        "sym2")}, ep)
                    emit("interval:remove-expr", lambda s2, p=bp, off=off:
                         locate(s2, p)["exprs"].pop(off) and None)

                    def move_expr(s2, p=bp, off=off):
                        ex = locate(s2, p)["exprs"]
                        new = int(off) + 1
                        while new in ex or str(new) in ex:
                            new += 1
                        ex[new] = ex.pop(off)
                    emit("expr:offset-key", move_expr)
                    for sk in ("sym", "sym2"):
                        if sk in e:
                            oth = [u for u in syms if u != e[sk]]
                            if oth:
                                emit("expr." + sk, lambda s2, p=ep, sk=sk,
                                     oth=oth: locate(s2, p).__setitem__(
                                         sk, rnd.choice(oth)))
                    if "sym2" in e and e["sym2"] != e["sym"]:
                        # two fields changed at once, each to the other's
                        # value: the operands of (sym1 - sym2) exchanged
                        def swap(s2, p=ep):
                            x = locate(s2, p)
                            x["sym"], x["sym2"] = x["sym2"], x["sym"]
                        emit("expr.symbols-exchanged", swap)
                    known = sorted(E["SymAttribute"].values())
                    miss = [a for a in known if a not in e["attrs"]]
                    emit("expr.attrs:add-known", lambda s2, p=ep, miss=miss:
                         locate(s2, p)["attrs"].append(rnd.choice(miss)))
                    if 123456 not in e["attrs"]:
                        emit("expr.attrs:add-unknown", lambda s2, p=ep:
                             locate(s2, p)["attrs"].append(123456))
                    if e["attrs"]:
                        emit("expr.attrs:remove", lambda s2, p=ep:
                             locate(s2, p)["attrs"].pop(0) and None)
                    if e["kind"] == "const":
                        def to_addr(s2, p=ep):
                            x = locate(s2, p)
                            x["kind"] = "addr"
                            x["scale"] = 1
                            x["sym2"] = x["sym"]
                        emit("expr.kind:const-to-addr", to_addr)

    # ---- one field's values exchanged between two siblings ---------------
    # (every multiset of values stays what it was; only who has which changes)
    def sibling_lists(s2):
        out = [("module", s2["modules"], ("name", "isa", "rebase_delta"))]
        for m in s2["modules"]:
            out.append(("symbol", m["symbols"], ("name", "at_end",
                                                 "payload")))
            out.append(("section", m["sections"], ("name", "flags")))
            for s_ in m["sections"]:
                out.append(("interval", s_["intervals"],
                            ("address", "size", "contents")))
                for bi in s_["intervals"]:
                    out.append(("block", bi["blocks"], ("offset", "size")))
        return out

    seen_ex = set()
    for kind, lst, fields in sibling_lists(sp):
        for f in fields:
            if (kind, f) in seen_ex:
                continue
            if len({repr(x.get(f)) for x in lst}) >= 2:
                seen_ex.add((kind, f))

                def exch(s2, kind=kind, f=f):
                    cands = [l for k, l, _ in sibling_lists(s2)
                             if k == kind and
                             len({repr(x.get(f)) for x in l}) >= 2]
                    if not cands:
                        return False
                    l = rnd.choice(cands)
                    a = rnd.choice(l)
                    b = rnd.choice([x for x in l
                                    if repr(x.get(f)) != repr(a.get(f))])
                    if kind == "block" and a.get("kind") != b.get("kind") \
                            and f not in a:
                        return False
                    a[f], b[f] = b[f], a[f]
                emit("exchange:%s.%s" % (kind, f), exch)

    # ---- the containment tree alone: the same nodes under other parents ---
    # (move: the two parents' child counts change; exchange: every count,
    # every UUID and every node's own content stay what they were)
    def parents(s2, pkind):
        if pkind == "module":
            return list(s2["modules"])
        secs = [s for m in s2["modules"] for s in m["sections"]]
        if pkind == "section":
            return secs
        return [bi for s in secs for bi in s["intervals"]]

    def movable(kind, node):
        if kind == "symbol":
            return node["payload"] is None or "value" in node["payload"]
        k2 = {"proxy": None, "section": "section", "interval": "interval",
              "block": None}[kind]
        sub = subtree_uuids(k2, node) if k2 else {node["uuid"]}
        # expressions point at symbols of their own module: a subtree that
        # holds any stays where it is
        ivs = [node] if kind == "interval" else node.get("intervals", [])
        if any(bi["exprs"] for bi in ivs):
            return False
        return not (sub & refs)

    def exprsyms(s2):
        return {e.get(k) for m in s2["modules"] for s in m["sections"]
                for bi in s["intervals"] for e in bi["exprs"].values()
                for k in ("sym", "sym2")}

    for pkind, field, ckind in (("module", "proxies", "proxy"),
                                ("module", "sections", "section"),
                                ("module", "symbols", "symbol"),
                                ("section", "intervals", "interval"),
                                ("interval", "blocks", "block")):
        def pick(s2, n, field=field, ckind=ckind, pkind=pkind):
            """n distinct parents of one kind, each with a movable child
            (for the second parent of a move none is needed)."""
            used = exprsyms(s2) if ckind == "symbol" else set()
            ps = [(p, [c for c in p[field] if movable(ckind, c)
                       and c["uuid"] not in used])
                  for p in parents(s2, pkind)]
            have = [x for x in ps if x[1]]
            if n == 2:
                return rnd.sample(have, 2) if len(have) >= 2 else None
            if not have or len(ps) < 2:
                return None
            a = rnd.choice(have)
            b = rnd.choice([x for x in ps if x[0] is not a[0]])
            return a, b

        def move(s2, pick=pick, field=field):
            r = pick(s2, 1)
            if r is None:
                return False
            (pa, ca), (pb, _) = r
            c = rnd.choice(ca)
            pa[field].remove(c)
            pb[field].append(c)

        def exchange(s2, pick=pick, field=field):
            r = pick(s2, 2)
            if r is None:
                return False
            (pa, ca), (pb, cb) = r
            x, y = rnd.choice(ca), rnd.choice(cb)
            pa[field][pa[field].index(x)] = y
            pb[field][pb[field].index(y)] = x
        if len(parents(sp, pkind)) >= 2:
            emit("tree:move-%s-to-other-%s" % (ckind, pkind), move)
            emit("tree:exchange-%ss-between-%ss" % (ckind, pkind), exchange)
    return out
