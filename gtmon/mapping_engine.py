"""symbolic_expressions (MutableMapping, sorted by offset) mirrored on a
built-in dict (C16; shared with C13's store mirror)."""
from .ctx import Discrepancy


class MapWorld:
    def __init__(self, gt, rnd, ctx, case, n_intervals=2):
        self.gt, self.rnd, self.ctx, self.case = gt, rnd, ctx, case
        self.sym = [gt.Symbol("s%d" % i) for i in range(3)]
        self.bis = [gt.ByteInterval(address=rnd.choice([None, 0, 10]),
                                    size=rnd.randint(0, 20))
                    for _ in range(n_intervals)]
        self.models = [dict() for _ in self.bis]
        self.exprs = {}  # id -> label
        # views taken once and kept: a dict's keys()/values()/items() are
        # live views of the mapping, through every later operation
        self.kept = [(bi.symbolic_expressions.keys(),
                      bi.symbolic_expressions.values(),
                      bi.symbolic_expressions.items(),
                      bi.symbolic_expressions) for bi in self.bis]

    def expr(self):
        rnd, gt = self.rnd, self.gt
        if rnd.random() < 0.5:
            e = gt.SymAddrConst(rnd.randint(-3, 3), rnd.choice(self.sym))
        else:
            e = gt.SymAddrAddr(1, rnd.randint(-3, 3), rnd.choice(self.sym),
                               rnd.choice(self.sym))
        self.exprs[id(e)] = "e%d" % (len(self.exprs) + 1)
        return e

    def lab(self, x):
        if isinstance(x, tuple):
            return tuple(self.lab(y) for y in x)
        if isinstance(x, list):
            return [self.lab(y) for y in x]
        return self.exprs.get(id(x), x)

    def fail(self, mech, what):
        raise Discrepancy("C16", "mapping." + mech, what,
                          {"last_ops": self.case.ops[-8:]})

    def check_state(self, after):
        for bi, model in zip(self.bis, self.models):
            m = bi.symbolic_expressions
            got = [(k, id(v)) for k, v in m.items()]
            want = [(k, id(model[k])) for k in sorted(model)]
            self.ctx.count("map:state_checks")
            if got != want:
                self.fail("contents:" + after,
                          "after %s the mapping holds %s, a dict would hold "
                          "(by offset) %s" % (
                              after, [(k, self.exprs.get(i, "?"))
                                      for k, i in got],
                              [(k, self.exprs.get(i, "?")) for k, i in want]))
            ks, vs, its, obj = self.kept[self.bis.index(bi)]
            self.ctx.count("map:kept_view_checks")
            if bi.symbolic_expressions is not obj:
                self.fail("mapping-object-replaced:" + after,
                          "interval.symbolic_expressions is a different "
                          "object after " + after)
            if list(ks) != sorted(model) or \
                    [id(v) for v in vs] != [i for k, i in want] or \
                    [(k, id(v)) for k, v in its] != want or \
                    len(ks) != len(model):
                self.fail("stale-view:" + after,
                          "a keys()/values()/items() view taken earlier "
                          "shows %s after %s; the mapping holds %s (a dict's "
                          "views are live)" % (list(ks), after,
                                               sorted(model)))
            if list(m) != sorted(model) or len(m) != len(model):
                self.fail("iteration:" + after,
                          "iteration/len disagree with the items view")
            # lookups read the same store
            got2 = [(o, id(e)) for b, o, e in
                    bi.symbolic_expressions_at_offset(range(0, 64))]
            if got2 != [(k, i) for k, i in want if 0 <= k < 64]:
                self.fail("lookup-vs-store:" + after,
                          "symbolic_expressions_at_offset disagrees with "
                          "the mapping's items")

    def step(self):
        rnd = self.rnd
        i = rnd.randrange(len(self.bis))
        bi, model = self.bis[i], self.models[i]
        m = bi.symbolic_expressions
        key = rnd.randint(0, 9) if rnd.random() < 0.85 else \
            rnd.choice([2 ** 64 - 1, 1000, 63])
        op = rnd.choice(["set", "set", "get", "del", "in", "getm", "pop",
                         "popd", "popitem", "setdefault", "update_map",
                         "update_pairs", "clear", "eq", "views", "assign",
                         "assign_pairs", "assign_other", "update_kw0"])
        self.case.ops.append({"op": "map." + op, "interval": i, "key": key})
        self.ctx.count("op:map." + op)
        self.ctx.seen("op_kinds", "map." + op)
        self.ctx.count("map:ops")
        want_exc = got_exc = None
        want = got = None
        e = self.expr()
        pairs = [(rnd.randint(0, 9), self.expr())
                 for _ in range(rnd.randint(0, 3))]
        other = (i + 1) % len(self.bis)

        def do(T, is_model):
            if op == "set":
                T[key] = e
            elif op == "get":
                return T[key]
            elif op == "del":
                del T[key]
            elif op == "in":
                return key in T
            elif op == "getm":
                return T.get(key, "dflt")
            elif op == "pop":
                return T.pop(key)
            elif op == "popd":
                return T.pop(key, "dflt")
            elif op == "setdefault":
                return T.setdefault(key, e)
            elif op == "update_map":
                return T.update(dict(pairs))
            elif op == "update_pairs":
                return T.update(list(pairs))
            elif op == "update_kw0":
                return T.update()
            elif op == "clear":
                return T.clear()
            elif op == "eq":
                probe = dict(model) if rnd_eq else dict(pairs)
                return (T == probe, T != probe, probe == T)
            elif op == "views":
                if is_model:
                    ks = sorted(T)
                    return (ks, [T[k] for k in ks], [(k, T[k]) for k in ks],
                            len(T))
                return (list(T.keys()), list(T.values()), list(T.items()),
                        len(T))
        rnd_eq = rnd.random() < 0.6
        if op == "popitem":
            if not model:
                try:
                    m.popitem()
                    self.fail("popitem:no-exception",
                              "popitem() on an empty mapping did not raise")
                except KeyError:
                    pass
            else:
                k, v = m.popitem()
                if k not in model or model[k] is not v:
                    self.fail("popitem:returns-non-item",
                              "popitem() returned (%r, %s), not a present "
                              "item" % (k, self.lab(v)))
                del model[k]
        elif op in ("assign", "assign_pairs", "assign_other"):
            if op == "assign":
                src = dict(pairs)
                bi.symbolic_expressions = dict(src)
            elif op == "assign_pairs":
                src = dict(pairs)
                bi.symbolic_expressions = list(pairs)
            else:
                src = dict(self.models[other])
                bi.symbolic_expressions = self.bis[other].symbolic_expressions
            if bi.symbolic_expressions is not m:
                # the attribute must stay the owning mapping (lookups read it)
                pass
            model.clear()
            model.update(src)
        else:
            try:
                want = do(model, True)
            except Exception as ex:
                want_exc = ex
            try:
                got = do(m, False)
            except Exception as ex:
                got_exc = ex
            if (want_exc is None) != (got_exc is None) or (
                    want_exc is not None and
                    type(want_exc) is not type(got_exc)):
                self.fail("%s:exception-differs" % op,
                          "%s: dict %s, symbolic_expressions %s" % (
                              op, "raises " + type(want_exc).__name__
                              if want_exc else "succeeds",
                              "raises %s: %s" % (type(got_exc).__name__,
                                                 str(got_exc)[:80])
                              if got_exc else "succeeds"))
            if want_exc is None:
                same = (self.lab(got) == self.lab(want)) and \
                    type(got) is type(want)
                if not same:
                    self.fail("%s:return-value" % op,
                              "%s returned %r, a dict returns %r" % (
                                  op, self.lab(got), self.lab(want)))
        self.check_state(op)


def run_history(ctx, case, gt, nops):
    w = MapWorld(gt, case.rnd, ctx, case)
    ctx.count("cases")
    for _ in range(nops):
        w.step()
    ctx.seen("nontrivial", case.ops)
    if case.index % 53 == 0:
        ctx.sample({"stream": "map", "ops": case.ops[:20]})
