"""Generators for AuxData type trees and values (C07, C08, C14, C01).

Types are reftypes trees ``(name, [kids])``; values are in the form this API
itself uses (list / set / dict / tuple / gtirb.Variant / gtirb.Offset /
uuid.UUID or Node).  Value domain = values representable in the API's own
decoded form: elements of set<> and keys of mapping<> are hashable (leaves,
Offset, tuples of those; no NaN), 'float' values are doubles inside the
binary32 range.
"""
import uuid as _uuid

from . import refcodec

INT_NAMES = sorted(refcodec.INTS)
LEAF_NAMES = INT_NAMES + ["bool", "float", "double", "string", "UUID",
                          "Offset"]
FLT_MAX = 3.4028234663852886e38
STR_PARTS = ["", "a", "abc", "é", "ß", "ю", "日本", "€", " ", "😀",
             "𝄞", "\x00", "<", ">", ",", "a<b>,c", " ", "\n", "\x7f",
             "\u0080", "߿", "ࠀ", "￿", "\U00010000",
             "\U0010ffff", "mapping<string,UUID>", "\ufeff", "\ufeffname",
             "\ufffe", "\ufffd", "\r\n", "\r", "e\u0301", "\u200b", "\ud7ff",
             "\ue000", "\x1a", "\\", "'", '"', "%s", "{}", "\x85", "\u2028"]


class Pool:
    """Nodes the UUID/Offset leaves can name: attached to ``ir``, detached
    nodes, and plain UUIDs."""

    def __init__(self, gt, rnd):
        self.gt = gt
        ir = gt.IR()
        m = gt.Module(name="m", ir=ir)
        s = gt.Section(name="s", module=m)
        bi = gt.ByteInterval(size=16, contents=b"\0" * 8, section=s)
        cb = gt.CodeBlock(size=2, offset=0, byte_interval=bi)
        db = gt.DataBlock(size=2, offset=4, byte_interval=bi)
        pb = gt.ProxyBlock(module=m)
        sy = gt.Symbol("x", module=m)
        self.ir = ir
        self.attached = [ir, m, s, bi, cb, db, pb, sy]
        self.detached = [gt.CodeBlock(), gt.DataBlock(), gt.ProxyBlock(),
                         gt.Symbol("d"), gt.Section(name="ds")]
        self.by_uuid = {n.uuid: n for n in self.attached}
        self.plain = [_uuid.UUID(int=0), _uuid.UUID(int=(1 << 128) - 1),
                      _uuid.UUID(int=rnd.getrandbits(128))]

    def pick(self, rnd):
        k = rnd.random()
        if k < 0.4:
            return rnd.choice(self.attached)
        if k < 0.55:
            return rnd.choice(self.attached).uuid  # UUID *value* naming one
        if k < 0.7:
            return rnd.choice(self.detached)
        if k < 0.85:
            return rnd.choice(self.plain)
        return _uuid.UUID(int=rnd.getrandbits(128))


def gen_type(rnd, depth, hashable=False, names=None, max_fields=4):
    leaves = names or LEAF_NAMES
    if depth <= 0 or rnd.random() < 0.3:
        return (rnd.choice(leaves), [])
    if hashable:
        if rnd.random() < 0.5:
            return (rnd.choice(leaves), [])
        n = rnd.randint(1, max_fields)
        return ("tuple", [gen_type(rnd, depth - 1, True, names, max_fields)
                          for _ in range(n)])
    k = rnd.choice(["sequence", "set", "mapping", "tuple", "variant",
                    "sequence", "mapping"])
    if k == "sequence":
        return (k, [gen_type(rnd, depth - 1, False, names, max_fields)])
    if k == "set":
        return (k, [gen_type(rnd, depth - 1, True, names, max_fields)])
    if k == "mapping":
        return (k, [gen_type(rnd, depth - 1, True, names, max_fields),
                    gen_type(rnd, depth - 1, False, names, max_fields)])
    n = rnd.randint(1, max_fields)
    if k == "variant":
        n = max(n, 2) if rnd.random() < 0.9 else 1
    return (k, [gen_type(rnd, depth - 1, False, names, max_fields)
                for _ in range(n)])


def gen_int(rnd, name):
    w, signed = refcodec.INTS[name]
    lo, hi = (-(1 << (8 * w - 1)), (1 << (8 * w - 1)) - 1) if signed \
        else (0, (1 << (8 * w)) - 1)
    k = rnd.randrange(10)
    cands = [lo, lo + 1, hi, hi - 1, 0, 1, hi // 2, hi // 2 + 1]
    if signed:
        cands += [-1, -2]
    if k < 6:
        return rnd.choice(cands)
    if k < 8:
        return rnd.randint(lo, hi)
    return max(lo, min(hi, rnd.choice([1, -1]) * (1 << rnd.randrange(8 * w))
                       + rnd.randint(-1, 1)))


def gen_f32(rnd, hashable):
    if hashable:
        # set elements / mapping keys: only values that are exact in
        # binary32 and not -0.0, so that two distinct keys never collide
        # after rounding (languages disagree on whether 0.0 and -0.0 are one
        # key, so "the same value" would not be well defined)
        if rnd.random() < 0.4:
            return rnd.choice([0.0, 1.0, -1.0, 0.5, 16777216.0, FLT_MAX,
                               -FLT_MAX, float("inf"), float("-inf"),
                               1.401298464324817e-45])
        b = rnd.getrandbits(32)
        if (b & 0x7F800000) == 0x7F800000:
            b &= ~0x00800000 & 0xFFFFFFFF
        if b == 0x80000000:
            b = 0
        return refcodec.f32_from_bits(b)
    k = rnd.randrange(12)
    specials = [0.0, -0.0, 1.0, -1.0, 0.1, 1 / 3, 16777217.0, 16777219.0,
                1e-45, 1e-46, 7e-46, 1.17549435e-38, 1.1754942e-38, FLT_MAX,
                -FLT_MAX, float("inf"), float("-inf"), 3.4028235e38,
                1.0000000596046448, 1.00000005960464478]
    if k < 5:
        return rnd.choice(specials)
    if k < 6 and not hashable:
        return refcodec.f32_from_bits(0x7FC00000 | rnd.getrandbits(22)
                                      | (rnd.getrandbits(1) << 31))
    if k < 9:  # exact binary32 value from a random finite bit pattern
        b = rnd.getrandbits(32)
        if (b & 0x7F800000) == 0x7F800000:
            b &= ~0x00800000 & 0xFFFFFFFF
        return refcodec.f32_from_bits(b)
    x = rnd.uniform(-1e6, 1e6) * rnd.choice([1, 1e-30, 1e30, 1e-40])
    return max(-FLT_MAX, min(FLT_MAX, x))


def gen_f64(rnd, hashable):
    if hashable and rnd.random() < 0.5:
        return rnd.choice([0.0, 1.0, -1.0, 5e-324, 1.7976931348623157e308,
                           float("inf"), float("-inf"), 0.1])
    k = rnd.randrange(10)
    specials = [0.0, -0.0, 1.0, 5e-324, 2.2250738585072014e-308,
                1.7976931348623157e308, -1.7976931348623157e308,
                float("inf"), float("-inf"), 0.1, 1e300, -1e-300]
    if k < 4:
        return rnd.choice(specials)
    if k < 5 and not hashable:  # quiet NaNs with payload
        return refcodec.f64_from_bits(0x7FF8000000000000
                                      | rnd.getrandbits(51)
                                      | (rnd.getrandbits(1) << 63))
    b = rnd.getrandbits(64)
    if (b & 0x7FF0000000000000) == 0x7FF0000000000000:
        b &= ~0x0010000000000000 & 0xFFFFFFFFFFFFFFFF
    if hashable and b == 1 << 63:
        b = 0
    v = refcodec.f64_from_bits(b)
    if hashable and v == 0.0:
        return 0.0
    return v


def gen_str(rnd):
    k = rnd.randrange(8)
    if k == 0:
        return ""
    if k < 5:
        return "".join(rnd.choice(STR_PARTS)
                       for _ in range(rnd.randint(1, 4)))
    if k < 7:  # random scalar values
        out = []
        for _ in range(rnd.randint(1, 6)):
            c = rnd.choice([rnd.randrange(0x80), rnd.randrange(0x80, 0x800),
                            rnd.randrange(0x800, 0x10000),
                            rnd.randrange(0x10000, 0x110000)])
            if 0xD800 <= c <= 0xDFFF:
                c = 0xE000
            out.append(chr(c))
        return "".join(out)
    n = rnd.choice([127, 128, 255, 256, 257, 1000, 65535, 65536, 65537])
    if n > 1000 and rnd.random() < 0.8:
        n = rnd.choice([255, 256])
    # byte length exactly at the boundary, with 1-, 2- or 3-byte characters
    ch = rnd.choice(["x", "x", "é", "日"])
    return ch * (n // len(ch.encode("utf-8"))) + "y" * (
        n % len(ch.encode("utf-8")))


THRESHOLD_LENGTHS = [7, 8, 9, 15, 16, 17, 31, 32, 33, 63, 64, 65, 100, 127,
                     128, 129, 255, 256, 257, 511, 512, 513, 1023, 1024,
                     1025]


def gen_long(rnd, pool):
    """(type, value): a long homogeneous container of leaves."""
    leaf = lambda: (rnd.choice(sorted(refcodec.INTS) + [
        "bool", "float", "double", "string", "UUID", "Offset"]), [])
    name = rnd.choice(["sequence", "sequence", "set", "mapping"])
    t = (name, [leaf(), leaf()] if name == "mapping" else [leaf()])
    n = rnd.choice(THRESHOLD_LENGTHS)
    hk = lambda k: gen_value(rnd, k, pool, True)
    if name == "sequence":
        v = [gen_value(rnd, t[1][0], pool) for _ in range(n)]
    elif name == "set":
        v = {hk(t[1][0]) for _ in range(n)}
    else:
        v = {hk(t[1][0]): gen_value(rnd, t[1][1], pool) for _ in range(n)}
    return t, v


def gen_value(rnd, t, pool, hashable=False, maxlen=4):
    gt = pool.gt
    name, kids = t
    if name in refcodec.INTS:
        return gen_int(rnd, name)
    if name == "bool":
        return rnd.random() < 0.5
    if name == "float":
        return gen_f32(rnd, hashable)
    if name == "double":
        return gen_f64(rnd, hashable)
    if name == "string":
        return gen_str(rnd)
    if name == "UUID":
        return pool.pick(rnd)
    if name == "Offset":
        return gt.Offset(pool.pick(rnd), gen_int(rnd, "uint64_t"))
    n = rnd.choice([0, 1, 1, 2, 2, 3, maxlen])
    if name in ("sequence", "set", "mapping") and \
            not any(k[1] for k in kids) and rnd.random() < 0.04:
        # long runs of leaf elements: element counts around the sizes at
        # which a bulk / cached / chunked path would plausibly switch on
        n = rnd.choice(THRESHOLD_LENGTHS)
    if name == "sequence":
        return [gen_value(rnd, kids[0], pool, False, maxlen)
                for _ in range(n)]
    if name == "set":
        return {gen_value(rnd, kids[0], pool, True, maxlen)
                for _ in range(n)}
    if name == "mapping":
        return {gen_value(rnd, kids[0], pool, True, maxlen):
                gen_value(rnd, kids[1], pool, False, maxlen)
                for _ in range(n)}
    if name == "tuple":
        return tuple(gen_value(rnd, kt, pool, hashable, maxlen)
                     for kt in kids)
    if name == "variant":
        i = rnd.randrange(len(kids))
        return gt.Variant(i, gen_value(rnd, kids[i], pool, False, maxlen))
    raise ValueError(name)


def mutate_nested(rnd, v, t, pool):
    """Edit, in place, the first list / set / dict found inside v (through
    tuples, variants, list elements and dict values). True if one was."""
    name, kids = t
    try:
        if name == "sequence" and isinstance(v, list):
            v.append(gen_value(rnd, kids[0], pool))
            return True
        if name == "set" and isinstance(v, set):
            n0 = len(v)
            for _ in range(8):
                v.add(gen_value(rnd, kids[0], pool, True))
                if len(v) > n0:
                    return True
            return False
        if name == "mapping" and isinstance(v, dict):
            v[gen_value(rnd, kids[0], pool, True)] = gen_value(
                rnd, kids[1], pool)
            return True
    except TypeError:
        return False
    if name == "tuple" and isinstance(v, tuple):
        order = list(range(len(kids)))
        rnd.shuffle(order)
        return any(mutate_nested(rnd, v[i], kids[i], pool) for i in order)
    if name == "variant" and hasattr(v, "val"):
        return mutate_nested(rnd, v.val, kids[v.index], pool)
    return False


def shape_errors(v, t, gt, path="$"):
    """Python-level container classes of a decoded value."""
    name, kids = t
    errs = []

    def want(cls, label):
        if not isinstance(v, cls):
            errs.append("%s: expected %s, got %s" % (path, label,
                                                     type(v).__name__))
            return False
        return True

    if name in refcodec.INTS:
        if isinstance(v, bool) or not isinstance(v, int):
            errs.append("%s: expected int, got %s" % (path, type(v).__name__))
    elif name == "bool":
        want(bool, "bool")
    elif name in ("float", "double"):
        want(float, "float")
    elif name == "string":
        want(str, "str")
    elif name == "UUID":
        want((_uuid.UUID, gt.Node), "UUID or Node")
    elif name == "Offset":
        if want(gt.Offset, "Offset"):
            if not isinstance(v.element_id, (_uuid.UUID, gt.Node)):
                errs.append("%s.element_id: %s" % (path, type(v.element_id)))
    elif name == "sequence":
        if want(list, "list"):
            for i, x in enumerate(v):
                errs += shape_errors(x, kids[0], gt, "%s[%d]" % (path, i))
    elif name == "set":
        if want(set, "set"):
            for x in v:
                errs += shape_errors(x, kids[0], gt, path + "{}")
    elif name == "mapping":
        if want(dict, "dict"):
            for k, x in v.items():
                errs += shape_errors(k, kids[0], gt, path + ".key")
                errs += shape_errors(x, kids[1], gt, path + ".val")
    elif name == "tuple":
        if want(tuple, "tuple") and len(v) == len(kids):
            for i, (x, kt) in enumerate(zip(v, kids)):
                errs += shape_errors(x, kt, gt, "%s.%d" % (path, i))
        elif isinstance(v, tuple):
            errs.append("%s: tuple arity %d != %d" % (path, len(v),
                                                      len(kids)))
    elif name == "variant":
        if want(gt.Variant, "Variant"):
            if not (0 <= v.index < len(kids)):
                errs.append("%s: variant index %r" % (path, v.index))
            else:
                errs += shape_errors(v.val, kids[v.index], gt,
                                     path + ".val")
    return errs


def identity_errors(v, t, gt, attached_by_uuid, path="$"):
    """UUID/Offset entries naming attached nodes must be those objects;
    all others plain UUIDs."""
    name, kids = t
    errs = []

    def one(x, p):
        if isinstance(x, gt.Node):
            if attached_by_uuid.get(x.uuid) is not x:
                errs.append("%s: decoded to a Node that is not the attached "
                            "object for its UUID" % p)
        elif isinstance(x, _uuid.UUID):
            if x in attached_by_uuid:
                errs.append("%s: plain UUID although it names an attached "
                            "node" % p)
        else:
            errs.append("%s: %s" % (p, type(x).__name__))

    if name == "UUID":
        one(v, path)
    elif name == "Offset":
        one(v.element_id, path + ".element_id")
    elif name in ("sequence", "set"):
        for x in v:
            errs += identity_errors(x, kids[0], gt, attached_by_uuid,
                                    path + "[]")
    elif name == "mapping":
        for k, x in v.items():
            errs += identity_errors(k, kids[0], gt, attached_by_uuid,
                                    path + ".key")
            errs += identity_errors(x, kids[1], gt, attached_by_uuid,
                                    path + ".val")
    elif name == "tuple":
        for x, kt in zip(v, kids):
            errs += identity_errors(x, kt, gt, attached_by_uuid, path + ".t")
    elif name == "variant":
        errs += identity_errors(v.val, kids[v.index], gt, attached_by_uuid,
                                path + ".val")
    return errs


def describe(v, t):
    """JSON-able rendering of a value for samples / replays."""
    n = refcodec.norm(refcodec.neutral(v, t))

    def j(x):
        if isinstance(x, tuple):
            return [j(y) for y in x]
        if isinstance(x, bytes):
            return x.hex()
        return x
    return j(n)
