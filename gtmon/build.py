"""Build an importable copy of /repo's *working tree* Python package.

/repo/python/gtirb is not importable as it stands (CMake generates
proto/*_pb2.py and version.py), and the pinned test suite imports the gtirb
wheel from site-packages instead.  Every check therefore builds the working
tree itself, into a scratch directory outside /repo and /verif:

  1. copy python/gtirb (whole tree),
  2. render gtirb/version.py from python/version.py.in + version.txt,
  3. compile proto/*.proto with the mini-protoc (gtmon/miniprotoc.py).

GTIRB_REPO overrides /repo (used by tools/selftest for mutants).
"""
import atexit
import os
import shutil
import sys
import tempfile

HERE = os.path.dirname(os.path.abspath(__file__))


def repo_dir():
    return os.environ.get("GTIRB_REPO", "/repo")


class BuildError(Exception):
    pass


def build(out=None, repo=None):
    """Build into ``out`` (fresh temp dir by default). Returns the directory
    to put on PYTHONPATH."""
    from . import miniprotoc

    repo = repo or repo_dir()
    if out is None:
        out = tempfile.mkdtemp(prefix="gtmon-build-")
        atexit.register(shutil.rmtree, out, ignore_errors=True)
    pkg = os.path.join(out, "gtirb")
    shutil.rmtree(pkg, ignore_errors=True)
    try:
        shutil.copytree(
            os.path.join(repo, "python", "gtirb"),
            pkg,
            ignore=shutil.ignore_patterns("__pycache__", "*_pb2.py"),
        )
        ver = {}
        for line in open(os.path.join(repo, "version.txt")):
            if line.strip():
                k, v = line.split()
                ver[k] = v
        text = open(os.path.join(repo, "python", "version.py.in")).read()
        for k, v in {
            "PROJECT_VERSION_MAJOR": ver["VERSION_MAJOR"],
            "PROJECT_VERSION_MINOR": ver["VERSION_MINOR"],
            "PROJECT_VERSION_PATCH": ver["VERSION_PATCH"],
            "GTIRB_PYTHON_DEV_SUFFIX": "",
            "GTIRB_PROTOBUF_VERSION": ver["VERSION_PROTOBUF"],
        }.items():
            text = text.replace("@%s@" % k, v)
        if "@" in text.replace("@property", ""):
            raise BuildError("unrendered placeholder in version.py.in")
        with open(os.path.join(pkg, "version.py"), "w") as f:
            f.write(text)
        os.makedirs(os.path.join(pkg, "proto"), exist_ok=True)
        init = os.path.join(pkg, "proto", "__init__.py")
        if not os.path.exists(init):
            open(init, "w").close()
        files = miniprotoc.compile_dir(os.path.join(repo, "proto"))
        for fn, fdp in files.items():
            base = fn[: -len(".proto")]
            imports = "".join(
                "from gtirb.proto import %s_pb2 as _%s\n"
                % (os.path.basename(d)[:-6], os.path.basename(d)[:-6])
                for d in fdp.dependency
            )
            src = (
                "from google.protobuf.internal import builder as _builder\n"
                "from google.protobuf import descriptor_pool as "
                "_descriptor_pool\n"
                "from google.protobuf import symbol_database as "
                "_symbol_database\n"
                "_sym_db = _symbol_database.Default()\n" + imports + "DESCRIPTOR = _descriptor_pool.Default()"
                ".AddSerializedFile(%r)\n"
                "_builder.BuildMessageAndEnumDescriptors(DESCRIPTOR, "
                "globals())\n"
                "_builder.BuildTopDescriptorsAndMessages(DESCRIPTOR, "
                "'gtirb.proto.%s_pb2', globals())\n"
            ) % (fdp.SerializeToString(), base)
            with open(
                os.path.join(pkg, "proto", "%s_pb2.py" % base), "w"
            ) as f:
                f.write(src)
    except BuildError:
        raise
    except Exception as e:  # parse errors, missing files ...
        raise BuildError("%s: %s" % (type(e).__name__, e))
    return out


def source_fingerprint(repo=None):
    """sha256 over the files the build consumes (for evidence)."""
    import hashlib

    repo = repo or repo_dir()
    h = hashlib.sha256()
    roots = [os.path.join(repo, "python", "gtirb"), os.path.join(repo, "proto")]
    for root in roots:
        for dp, dn, fns in sorted(os.walk(root)):
            dn.sort()
            for fn in sorted(fns):
                if fn.endswith((".py", ".proto")):
                    p = os.path.join(dp, fn)
                    h.update(os.path.relpath(p, repo).encode())
                    h.update(open(p, "rb").read())
    h.update(open(os.path.join(repo, "version.txt"), "rb").read())
    return h.hexdigest()[:16]


if __name__ == "__main__":
    sys.path.insert(0, os.path.dirname(HERE))
    print(build(sys.argv[1] if len(sys.argv) > 1 else None))
