"""Parent side of a check: build the working tree, fan out workers, merge,
classify against known_findings.json, write evidence, print verdict lines.

Exit status: 0 held on what was observed (KNOWN-FINDING lines allowed),
1 violation (a line ``VIOLATION property=<id> replay=<path>`` per mechanism),
2 inconclusive (``INCONCLUSIVE property=<id> reason=...``; never on the
unchanged tree).
"""
import argparse
import collections
import fnmatch
import hashlib
import json
import os
import shutil
import subprocess
import sys
import tempfile
import time

from . import build as gbuild

VERIF = os.path.dirname(os.path.dirname(os.path.abspath(__file__)))
OUT = os.environ.get("GTMON_OUT") or VERIF  # evidence/ and replays/ root
PY = "/venv/bin/python"


def load_known():
    p = os.path.join(VERIF, "known_findings.json")
    if not os.path.exists(p):
        return []
    return json.load(open(p))["findings"]


def match_known(rec, known):
    for k in known:
        if k.get("status") != "open":
            continue
        if k["property"] != rec["property"]:
            continue
        if fnmatch.fnmatchcase(rec["mechanism"], k["mechanism"]):
            return k
    return None


def spawn_workers(prop, tier, seed, build_dir, nworkers, params, budgets,
                  replay=None, extra_env=None, tag=""):
    tmp = tempfile.mkdtemp(prefix="gtmon-out-")
    procs = []
    for w in range(nworkers):
        out = os.path.join(tmp, "w%d.json" % w)
        args = {
            "prop": prop, "tier": tier, "seed": seed, "worker": w,
            "nworkers": nworkers, "build_dir": build_dir, "out": out,
            "params": params, "replay": replay,
            "cpu_budget_s": budgets.get("cpu_budget_s"),
            "cpu_hard_s": budgets.get("cpu_hard_s"),
        }
        env = dict(os.environ)
        env["PYTHONPATH"] = build_dir + os.pathsep + VERIF
        env["PYTHONHASHSEED"] = str(seed % 4294967295)
        env["PYTHONDONTWRITEBYTECODE"] = "1"
        env.pop("PYTHONSTARTUP", None)
        if extra_env:
            env.update(extra_env)
        p = subprocess.Popen(
            [PY, "-m", "gtmon.worker", json.dumps(args)],
            env=env, cwd=VERIF,
            stdout=None if replay is not None else subprocess.PIPE,
            stderr=subprocess.STDOUT)
        procs.append((w, p, out))
    results = []
    wall_limit = budgets.get("wall_limit_s", 3600)
    t0 = time.time()
    for w, p, out in procs:
        left = max(1.0, wall_limit - (time.time() - t0))
        try:
            stdout, _ = p.communicate(timeout=left)
        except subprocess.TimeoutExpired:
            p.kill()
            stdout, _ = p.communicate()
            results.append({"worker": w, "fatal":
                            "wall-clock watchdog (%ds) fired%s" % (wall_limit, tag)})
            continue
        if os.path.exists(out):
            try:
                r = json.load(open(out))
            except Exception as e:
                r = {"worker": w, "fatal": "unreadable worker output: %s" % e}
        else:
            tail = (stdout or b"")[-1500:].decode("utf-8", "replace")
            r = {"worker": w, "fatal": "worker exited with status %s and "
                 "no output%s: %s" % (p.returncode, tag, tail)}
        results.append(r)
    shutil.rmtree(tmp, ignore_errors=True)
    return results


def function_universe(build_dir):
    """'file:qualname' of every function defined in the built package
    (walks the code objects of each source file)."""
    out = set()
    root = os.path.join(build_dir, "gtirb")
    for fn in sorted(os.listdir(root)):
        if not fn.endswith(".py"):
            continue
        try:
            top = compile(open(os.path.join(root, fn)).read(), fn, "exec")
        except Exception:
            continue
        work = [top]
        while work:
            c = work.pop()
            for k in c.co_consts:
                if hasattr(k, "co_qualname"):
                    work.append(k)
                    # functions only (class bodies run at import time,
                    # before the monitor is switched on)
                    if not k.co_name.startswith("<") and k.co_flags & 0x1:
                        out.add("%s:%s" % (fn, k.co_qualname))
    return out


def anchor_files(prop):
    try:
        for line in open(os.path.join(VERIF, "properties.jsonl")):
            p = json.loads(line)
            if p["id"] == prop:
                return [os.path.basename(f) for f in p["anchors"]["files"]
                        if f.startswith("python/gtirb/")]
    except Exception:
        pass
    return []


def merge(results):
    counters = collections.Counter()
    hashes = collections.defaultdict(set)
    samples, notes, inconclusive, fatals = [], set(), [], []
    reached = set()
    violations = {}
    vcounts = collections.Counter()
    backends = collections.Counter()
    meta = {}
    cpu = 0.0
    for r in results:
        if r.get("fatal"):
            fatals.append("worker %s: %s" % (r.get("worker"), r["fatal"]))
            continue
        counters.update(r.get("counters", {}))
        for k, v in r.get("hashes", {}).items():
            hashes[k].update(v)
        for s in r.get("samples", []):
            if len(samples) < 5:
                samples.append(s)
        notes.update(r.get("notes", []))
        inconclusive.extend(r.get("inconclusive", []))
        for v in r.get("violations", []):
            violations.setdefault((v["property"], v["mechanism"]), v)
        vcounts.update(r.get("violation_counts", {}))
        if r.get("protobuf_backend"):
            backends[r["protobuf_backend"]] += 1
        meta = r.get("meta") or meta
        reached.update(r.get("functions_reached", []))
        cpu += r.get("cpu_s", 0)
    return dict(counters=counters, hashes=hashes, samples=samples,
                notes=sorted(notes), inconclusive=inconclusive,
                fatals=fatals, violations=violations, vcounts=vcounts,
                backends=dict(backends), meta=meta, cpu_s=round(cpu, 1),
                reached=reached)


def write_replay(prop, rec):
    d = os.path.join(OUT, "replays")
    os.makedirs(d, exist_ok=True)
    name = "%s-%s.json" % (
        prop, hashlib.sha1(rec["mechanism"].encode()).hexdigest()[:10])
    path = os.path.join(d, name)
    with open(path, "w") as f:
        json.dump(rec, f, indent=1, default=repr)
    return path


def nested(counters):
    """'a:b:c' counter keys -> nested dicts for readable evidence."""
    out = {}
    for k in sorted(counters):
        parts = k.split(":")
        d = out
        for p in parts[:-1]:
            nxt = d.setdefault(p, {})
            if not isinstance(nxt, dict):
                nxt = d[p] = {"_": nxt}
            d = nxt
        if isinstance(d.get(parts[-1]), dict):
            d[parts[-1]]["_"] = counters[k]
        else:
            d[parts[-1]] = counters[k]
    return out


def main(argv=None):
    from .registry import REGISTRY

    ap = argparse.ArgumentParser()
    ap.add_argument("prop")
    ap.add_argument("--tier", default=os.environ.get("VERIF_TIER") or "quick")
    ap.add_argument("--replay")
    ap.add_argument("--workers", type=int)
    ap.add_argument("--scale", type=float, default=1.0,
                    help="multiply case counts (debugging)")
    a = ap.parse_args(argv)
    prop = a.prop.upper()
    tier = a.tier if a.tier in ("quick", "thorough") else "quick"
    try:
        seed = int(os.environ.get("VERIF_SEED", "0") or 0)
    except ValueError:
        seed = 0
    if prop not in REGISTRY:
        print("unknown property %s" % prop)
        return 2
    reg = REGISTRY[prop]
    t0 = time.time()
    evidence_path = os.path.join(OUT, "evidence", "%s.json" % prop)

    def inconclusive_exit(reason):
        print("INCONCLUSIVE property=%s reason=%s" % (prop, reason))
        return 2

    try:
        build_dir = gbuild.build()
    except gbuild.BuildError as e:
        return inconclusive_exit("build of working tree failed: %s" % e)
    fingerprint = gbuild.source_fingerprint()

    params = dict(reg["tiers"][tier])
    if a.scale != 1.0:
        for k, v in list(params.items()):
            if k.startswith("n_") and isinstance(v, int):
                params[k] = max(1, int(v * a.scale))
    nworkers = a.workers or params.pop("workers", 8)
    params.pop("workers", None)
    # per-worker CPU budgets (soft: remaining cases skipped => inconclusive;
    # hard: RLIMIT_CPU) and a generous wall-clock watchdog
    thorough = tier == "thorough"
    budgets = {
        "cpu_budget_s": params.pop("cpu_budget_s", 36000 if thorough else 900),
        "cpu_hard_s": params.pop("cpu_hard_s", 50000 if thorough else 3000),
        "wall_limit_s": params.pop("wall_limit_s",
                                   50000 if thorough else 5400),
    }

    if a.replay:
        rec = json.load(open(a.replay))
        res = spawn_workers(prop, tier, seed, build_dir, 1, params, budgets,
                            replay=rec)
        m = merge(res)
        for f in m["fatals"]:
            print("FATAL", f)
        if m["violations"]:
            for (p, mech), v in m["violations"].items():
                print("REPRODUCED property=%s mechanism=%s: %s"
                      % (p, mech, v["what"]))
            return 1
        print("not reproduced on this tree")
        return 0

    pre = reg.get("pre")
    if pre:
        pre(params)
    # optional extra configurations (e.g. protobuf backends for C02)
    configs = reg.get("configs") or [{"name": "default", "env": {}}]
    all_results = []
    per_config = {}
    for cfg in configs:
        if tier not in cfg.get("tiers", ("quick", "thorough")):
            continue
        p2 = dict(params)
        p2["config"] = cfg["name"]
        res = spawn_workers(prop, tier, seed, build_dir,
                            cfg.get("workers", nworkers), p2, budgets,
                            extra_env=cfg.get("env"),
                            tag=" (config %s)" % cfg["name"])
        per_config[cfg["name"]] = merge(res)["backends"]
        all_results.extend(res)
    m = merge(all_results)
    post = reg.get("post")
    if post:
        # parent-side step that needs no gtirb import (e.g. Java x-check)
        post(m, {"build_dir": build_dir, "tier": tier, "seed": seed,
                 "params": params, "merge": merge,
                 "spawn": lambda p2: spawn_workers(
                     prop, tier, seed, build_dir, nworkers, p2, budgets,
                     tag=" (stage 2)")})
    meta = m["meta"]
    known = load_known()

    new, hit_known = [], {}
    foreign = []
    for (p, mech), v in sorted(m["violations"].items()):
        if p != prop:
            # discrepancy that belongs to another property's check: it ends
            # the history in which it was seen, is reported in evidence, and
            # is decided by that property's own check
            foreign.append("%s %s: %s" % (p, mech, v["what"][:160]))
            continue
        k = match_known(v, known)
        if k is not None:
            hit_known.setdefault(k["id"], (k, v))
        else:
            new.append(v)

    # reach requirements -> inconclusive
    reasons = list(m["fatals"]) + list(m["inconclusive"])
    reach = dict(meta.get("reach", {}))
    reach.update((meta.get("reach_tier") or {}).get(tier, {}))
    reach_report = {}
    for key, need in reach.items():
        if key.startswith("#"):
            have = len(m["hashes"].get(key[1:], ()))
        else:
            have = m["counters"].get(key, 0)
        reach_report[key] = {"need": need, "have": have}
        if have < need:
            reasons.append("reach requirement %s: have %d < need %d"
                           % (key, have, need))

    evals = m["counters"].get("cases", 0)
    distinct = len(m["hashes"].get("nontrivial", ())) + \
        m["counters"].get("distinct_nontrivial_counted", 0)
    coverage = {
        "evaluations": int(evals),
        "distinct_nontrivial": int(distinct),
        "rule": meta.get("rule", ""),
        "samples": m["samples"] or ["<no sample recorded>"],
        "counters": nested(m["counters"]),
        "distinct": {k: len(v) for k, v in sorted(m["hashes"].items())},
        "distinct_is_lower_bound": bool(any(
            k.startswith("distinct_overflow:") for k in m["counters"])),
        "reach_requirements": reach_report,
        "protobuf_backends_observed": per_config,
        "workers": len(all_results),
        "cpu_s": m["cpu_s"],
        "source_fingerprint": fingerprint,
        "repo": gbuild.repo_dir(),
        "notes": m["notes"],
        "known_findings_hit": sorted(hit_known),
        "known_findings_open": sorted(
            k["id"] for k in known
            if k["property"] == prop and k.get("status") == "open"),
        "new_violation_mechanisms": [v["mechanism"] for v in new],
        "other_property_observations": foreign[:20],
        "violation_counts": dict(m["vcounts"]),
        "inconclusive_reasons": reasons,
    }
    try:
        uni = function_universe(build_dir)
        anch = set(anchor_files(prop))
        reached = {f for f in m["reached"] if not f.split(":")[1].startswith(
            "<") and "<" not in f.split(":")[1].split(".")[-1]}
        in_anchor = {f for f in uni if f.split(":")[0] in anch}
        coverage["code_reach"] = {
            "how": "sys.monitoring PY_START per code object in the worker "
                   "processes (evidence only)",
            "package_functions": len(uni),
            "package_functions_entered": len(uni & reached),
            "anchored_files": sorted(anch),
            "anchored_functions": len(in_anchor),
            "anchored_functions_entered": len(in_anchor & reached),
            "anchored_functions_not_entered": sorted(
                in_anchor - reached)[:80],
        }
    except Exception as e:
        coverage["code_reach"] = {"error": str(e)}
    if meta.get("exhaustive"):
        coverage["exhaustive"] = bool(meta["exhaustive"])
    for k, v in (m.get("extra_coverage") or {}).items():
        coverage[k] = v
    ev = {
        "property_id": prop, "tier": tier, "seed": seed,
        "level": reg.get("level", "exploration"),
        "coverage": coverage,
        "assumptions": meta.get("assumptions", []),
        "wall_s": round(time.time() - t0, 2),
        "violations": len(new),
    }
    os.makedirs(os.path.dirname(evidence_path), exist_ok=True)
    with open(evidence_path, "w") as f:
        json.dump(ev, f, indent=1, default=repr)

    for k in known:
        if k["property"] == prop and k.get("status") == "open":
            seen = "observed in this run" if k["id"] in hit_known \
                else "not reached by this run's workload"
            print("KNOWN-FINDING: property=%s %s [%s; %s]"
                  % (prop, k["what"], k["id"], seen))
    import glob
    for old in glob.glob(os.path.join(OUT, "replays", prop + "-*.json")):
        os.remove(old)
    for v in new:
        path = write_replay(prop, v)
        print("VIOLATION property=%s replay=%s" % (prop, path))
        print("  mechanism=%s: %s" % (v["mechanism"], v["what"]))
    print("%s tier=%s seed=%d cases=%d distinct_nontrivial=%d "
          "violations=%d known=%d wall=%.1fs cpu=%.1fs"
          % (prop, tier, seed, evals, distinct, len(new), len(hit_known),
             time.time() - t0, m["cpu_s"]))
    if new:
        return 1
    if reasons:
        return inconclusive_exit("; ".join(reasons)[:1500])
    return 0


if __name__ == "__main__":
    sys.exit(main())
