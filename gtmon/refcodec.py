"""Reference AuxData codec, written from the "Serialization Format" comment in
include/gtirb/AuxData.hpp / AuxData.md, sharing no code with
gtirb.serialization:

  integers   fixed width, little endian, two's complement
  bool       1 byte
  float      IEEE-754 binary32 / double binary64, little endian
  string     uint64 count of UTF-8 *bytes*, then the bytes
  UUID       16 raw bytes
  Offset     UUID, then uint64 displacement
  sequence / set   uint64 element count, then the elements
  mapping    uint64 element count, then key,value pairs
  tuple      the fields in order
  variant    uint64 alternative index, then that alternative

Values are walked by duck typing (``.uuid`` for nodes, ``.element_id`` /
``.displacement`` for Offset, ``.index`` / ``.val`` for Variant) so this
module never imports gtirb.  Decoding returns a *neutral* form:

  int/bool/str as is;  float -> ("f32"|"f64", bits)
  UUID -> ("u", 16 bytes);  Offset -> ("o", 16 bytes, disp)
  sequence -> ("seq", [...]);  set -> ("set", [...wire order...])
  mapping -> ("map", [(k, v)...wire order...]);  tuple -> ("tup", [...])
  variant -> ("var", index, value)
"""
import ctypes
import uuid as _uuid

from . import reftypes

INTS = {
    "uint8_t": (1, False), "uint16_t": (2, False), "uint32_t": (4, False),
    "uint64_t": (8, False), "int8_t": (1, True), "int16_t": (2, True),
    "int32_t": (4, True), "int64_t": (8, True), "Addr": (8, False),
}
LEAVES = set(INTS) | {"bool", "float", "double", "string", "UUID", "Offset"}
CONTAINERS = {"sequence", "set", "mapping", "tuple", "variant"}
KNOWN = LEAVES | CONTAINERS


class RefError(Exception):
    pass


def parse(type_name):
    t = reftypes.parse(type_name)
    if t is None:
        raise RefError("bad type name %r" % type_name)
    return t


def all_known(t):
    work = [t]
    while work:
        n, k = work.pop()
        if n not in KNOWN:
            return False
        work.extend(k)
    return True


def _int_bytes(v, width, signed):
    lo, hi = (-(1 << (8 * width - 1)), (1 << (8 * width - 1)) - 1) if signed \
        else (0, (1 << (8 * width)) - 1)
    if not (lo <= v <= hi):
        raise RefError("integer %d out of range for width %d" % (v, width))
    v &= (1 << (8 * width)) - 1
    return bytes((v >> (8 * i)) & 0xFF for i in range(width))


def _u64(v):
    return _int_bytes(v, 8, False)


def f32_bits(x):
    return int.from_bytes(bytes(ctypes.c_float(x)), "little")


def f64_bits(x):
    return int.from_bytes(bytes(ctypes.c_double(x)), "little")


def f32_from_bits(b):
    return ctypes.c_float.from_buffer_copy(b.to_bytes(4, "little")).value


def f64_from_bits(b):
    return ctypes.c_double.from_buffer_copy(b.to_bytes(8, "little")).value


def uuid_bytes(v):
    if isinstance(v, _uuid.UUID):
        return v.bytes
    u = getattr(v, "uuid", None)
    if isinstance(u, _uuid.UUID):
        return u.bytes
    raise RefError("not a UUID or node: %r" % (v,))


def encode(v, t, order=None):
    """Reference encoding of value v (gtirb-form) under type tree t.
    ``order``: optional callable(list)->list used to permute set elements and
    mapping items (foreign writers may use any order)."""
    out = bytearray()
    _enc(out, v, t, order)
    return bytes(out)


def _enc(out, v, t, order):
    name, kids = t
    if name in INTS:
        w, s = INTS[name]
        if isinstance(v, bool) or not isinstance(v, int):
            raise RefError("int expected")
        out += _int_bytes(v, w, s)
    elif name == "bool":
        out += b"\x01" if v else b"\x00"
    elif name == "float":
        out += bytes(ctypes.c_float(v))
    elif name == "double":
        out += bytes(ctypes.c_double(v))
    elif name == "string":
        b = v.encode("utf-8")
        out += _u64(len(b))
        out += b
    elif name == "UUID":
        out += uuid_bytes(v)
    elif name == "Offset":
        out += uuid_bytes(v.element_id)
        out += _u64(v.displacement)
    elif name in ("sequence", "set"):
        items = list(v)
        if name == "set" and order:
            items = order(items)
        out += _u64(len(items))
        for x in items:
            _enc(out, x, kids[0], order)
    elif name == "mapping":
        items = list(v.items())
        if order:
            items = order(items)
        out += _u64(len(items))
        for k, x in items:
            _enc(out, k, kids[0], order)
            _enc(out, x, kids[1], order)
    elif name == "tuple":
        if len(v) != len(kids):
            raise RefError("tuple arity")
        for x, kt in zip(v, kids):
            _enc(out, x, kt, order)
    elif name == "variant":
        out += _u64(v.index)
        _enc(out, v.val, kids[v.index], order)
    else:
        raise RefError("unknown type %s" % name)


def decode(buf, t, pos=0):
    """Returns (neutral value, new position); raises RefError on malformed
    or truncated input."""
    name, kids = t

    def take(n):
        nonlocal pos
        if pos + n > len(buf):
            raise RefError("truncated")
        b = bytes(buf[pos:pos + n])
        pos += n
        return b

    if name in INTS:
        w, s = INTS[name]
        v = 0
        for i, byte in enumerate(take(w)):
            v |= byte << (8 * i)
        if s and v >= 1 << (8 * w - 1):
            v -= 1 << (8 * w)
        return v, pos
    if name == "bool":
        return take(1) != b"\x00", pos
    if name == "float":
        return ("f32", int.from_bytes(take(4), "little")), pos
    if name == "double":
        return ("f64", int.from_bytes(take(8), "little")), pos
    if name == "string":
        n, pos = decode(buf, ("uint64_t", []), pos)
        try:
            return take(n).decode("utf-8"), pos
        except UnicodeDecodeError as e:
            raise RefError("bad utf-8: %s" % e)
    if name == "UUID":
        return ("u", take(16)), pos
    if name == "Offset":
        u = take(16)
        d, pos = decode(buf, ("uint64_t", []), pos)
        return ("o", u, d), pos
    if name in ("sequence", "set"):
        n, pos = decode(buf, ("uint64_t", []), pos)
        if n > len(buf):
            raise RefError("count exceeds input")
        items = []
        for _ in range(n):
            x, pos = decode(buf, kids[0], pos)
            items.append(x)
        return ("seq" if name == "sequence" else "set", items), pos
    if name == "mapping":
        n, pos = decode(buf, ("uint64_t", []), pos)
        if n > len(buf):
            raise RefError("count exceeds input")
        items = []
        for _ in range(n):
            k, pos = decode(buf, kids[0], pos)
            x, pos = decode(buf, kids[1], pos)
            items.append((k, x))
        return ("map", items), pos
    if name == "tuple":
        items = []
        for kt in kids:
            x, pos = decode(buf, kt, pos)
            items.append(x)
        return ("tup", items), pos
    if name == "variant":
        i, pos = decode(buf, ("uint64_t", []), pos)
        if i >= len(kids):
            raise RefError("variant index out of range")
        x, pos = decode(buf, kids[i], pos)
        return ("var", i, x), pos
    raise RefError("unknown type %s" % name)


def encode_neutral(n, t):
    """Reference encoding straight from a neutral value."""
    out = bytearray()
    _enc_n(out, n, t)
    return bytes(out)


def _enc_n(out, n, t):
    name, kids = t
    if name in INTS:
        out += _int_bytes(n, *INTS[name])
    elif name == "bool":
        out += b"\x01" if n else b"\x00"
    elif name == "float":
        out += n[1].to_bytes(4, "little")
    elif name == "double":
        out += n[1].to_bytes(8, "little")
    elif name == "string":
        b = n.encode("utf-8")
        out += _u64(len(b)) + b
    elif name == "UUID":
        out += n[1]
    elif name == "Offset":
        out += n[1] + _u64(n[2])
    elif name in ("sequence", "set"):
        out += _u64(len(n[1]))
        for x in n[1]:
            _enc_n(out, x, kids[0])
    elif name == "mapping":
        out += _u64(len(n[1]))
        for k, x in n[1]:
            _enc_n(out, k, kids[0])
            _enc_n(out, x, kids[1])
    elif name == "tuple":
        for x, kt in zip(n[1], kids):
            _enc_n(out, x, kt)
    elif name == "variant":
        out += _u64(n[1])
        _enc_n(out, n[2], kids[n[1]])
    else:
        raise RefError("unknown type %s" % name)


def neutral(v, t, round32=True):
    """Neutral form of a gtirb-form value (what decode(encode(v)) must
    give, up to set/map order).  float values are rounded to binary32 when
    round32 (the documented behaviour of the 'float' type)."""
    name, kids = t
    if name in INTS:
        return int(v)
    if name == "bool":
        return bool(v)
    if name == "float":
        return ("f32", f32_bits(v))
    if name == "double":
        return ("f64", f64_bits(v))
    if name == "string":
        return v
    if name == "UUID":
        return ("u", uuid_bytes(v))
    if name == "Offset":
        return ("o", uuid_bytes(v.element_id), int(v.displacement))
    if name == "sequence":
        return ("seq", [neutral(x, kids[0]) for x in v])
    if name == "set":
        return ("set", [neutral(x, kids[0]) for x in v])
    if name == "mapping":
        return ("map", [(neutral(k, kids[0]), neutral(x, kids[1]))
                        for k, x in v.items()])
    if name == "tuple":
        return ("tup", [neutral(x, kt) for x, kt in zip(v, kids)])
    if name == "variant":
        return ("var", int(v.index), neutral(v.val, kids[v.index]))
    raise RefError("unknown type %s" % name)


def _nan32(b):
    return (b & 0x7F800000) == 0x7F800000 and (b & 0x007FFFFF) != 0


def norm(n, key=False):
    """Order-insensitive, duplicate-collapsing normal form of a neutral
    value; binary32 NaNs are collapsed to one token (payloads need not
    survive the float<->double conversion).  Inside set elements and mapping
    keys (key=True) -0.0 is identified with 0.0, as Python's set/dict do."""
    if isinstance(n, tuple):
        tag = n[0]
        if tag == "f32":
            if n[1] == "nan" or _nan32(n[1]):
                return ("f32", "nan")
            return ("f32", 0) if key and n[1] == 0x80000000 else n
        if tag == "f64":
            return ("f64", 0) if key and n[1] == 1 << 63 else n
        if tag in ("u", "o"):
            return n
        if tag == "seq" or tag == "tup":
            return (tag, tuple(norm(x, key) for x in n[1]))
        if tag == "set":
            items = {}
            for x in n[1]:
                y = norm(x, True)
                items[repr(y)] = y
            return ("set", tuple(items[k] for k in sorted(items)))
        if tag == "map":
            items = {}
            for k, x in n[1]:
                nk = norm(k, True)
                items[repr(nk)] = (nk, norm(x, key))  # last wins
            return ("map", tuple(items[k] for k in sorted(items)))
        if tag == "var":
            return ("var", n[1], norm(n[2], key))
    return n
