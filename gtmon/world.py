"""World observer (C03, C04, C10, C16, C17): structural invariants of live
gtirb objects checked at quiescent points through public attributes only.

``check(gt, irs, universe, ...)`` returns a list of findings
``(property, mechanism, what)``; empty = all invariants hold.
"""
import collections
import uuid as _uuid


def kind(gt, n):
    for cls, name in ((gt.IR, "IR"), (gt.Module, "Module"),
                      (gt.Section, "Section"),
                      (gt.ByteInterval, "ByteInterval"),
                      (gt.CodeBlock, "CodeBlock"),
                      (gt.DataBlock, "DataBlock"),
                      (gt.ProxyBlock, "ProxyBlock"), (gt.Symbol, "Symbol")):
        if isinstance(n, cls):
            return name
    return type(n).__name__


def parent_of(gt, n):
    if isinstance(n, gt.Module):
        return n.ir
    if isinstance(n, (gt.Section, gt.Symbol, gt.ProxyBlock)):
        return n.module
    if isinstance(n, gt.ByteInterval):
        return n.section
    if isinstance(n, gt.ByteBlock):
        return n.byte_interval
    return None


def collections_of(gt, n):
    """[(relation name, list of members)] of a potential parent."""
    if isinstance(n, gt.IR):
        return [("IR.modules", list(n.modules))]
    if isinstance(n, gt.Module):
        return [("Module.sections", list(n.sections)),
                ("Module.symbols", list(n.symbols)),
                ("Module.proxies", list(n.proxies))]
    if isinstance(n, gt.Section):
        return [("Section.byte_intervals", list(n.byte_intervals))]
    if isinstance(n, gt.ByteInterval):
        return [("ByteInterval.blocks", list(n.blocks))]
    return []


def relation_of(gt, child):
    if isinstance(child, gt.Module):
        return "IR.modules"
    if isinstance(child, gt.Section):
        return "Module.sections"
    if isinstance(child, gt.Symbol):
        return "Module.symbols"
    if isinstance(child, gt.ProxyBlock):
        return "Module.proxies"
    if isinstance(child, gt.ByteInterval):
        return "Section.byte_intervals"
    return "ByteInterval.blocks"


def reachable(gt, root):
    out, work = [], [root]
    while work:
        n = work.pop()
        out.append(n)
        for _, members in collections_of(gt, n):
            work.extend(members)
    return out


def ids(xs):
    return collections.Counter(id(x) for x in xs)


def check(gt, irs, universe, model_parent=None, names=(), rnd=None,
          want=("C03", "C04", "C10"), counters=None):
    """model_parent: optional {id(node): parent object or None}."""
    F = []
    cnt = counters if counters is not None else collections.Counter()
    allnodes = list({id(n): n for n in list(universe) + list(irs)}.values())

    # ---- C04: both ends ------------------------------------------------
    if "C04" in want:
        for n in allnodes:
            if isinstance(n, gt.IR):
                continue
            p = parent_of(gt, n)
            rel = relation_of(gt, n)
            if model_parent is not None and id(n) in model_parent:
                cnt["c04:model_parent_comparisons"] += 1
                if p is not model_parent[id(n)]:
                    F.append(("C04", "parent-attr!=model:" + rel,
                              "%s's parent attribute is %s but the forest "
                              "model says %s" % (
                                  kind(gt, n), kind(gt, p) if p is not None
                                  else None,
                                  kind(gt, model_parent[id(n)])
                                  if model_parent[id(n)] is not None
                                  else None)))
            if p is not None:
                occ = sum(1 for r, ms in collections_of(gt, p) for c in ms
                          if c is n)
                cnt["c04:child_in_parent_checks"] += 1
                if occ != 1:
                    F.append(("C04", "child-not-once-in-parent:" + rel,
                              "%s names a parent whose collection holds it "
                              "%d times" % (kind(gt, n), occ)))
        for n in allnodes:
            for rel, members in collections_of(gt, n):
                if len(set(map(id, members))) != len(members):
                    F.append(("C04", "duplicate-member:" + rel,
                              "%s lists a member twice" % rel))
                for c in members:
                    cnt["c04:member_parent_checks"] += 1
                    if parent_of(gt, c) is not n:
                        F.append(("C04", "member-with-other-parent:" + rel,
                                  "%s holds a %s whose parent attribute "
                                  "names %s" % (
                                      rel, kind(gt, c),
                                      "another object"
                                      if parent_of(gt, c) is not None
                                      else "None")))
        # derived accessors
        for n in allnodes:
            if isinstance(n, gt.IR):
                continue
            chain = []
            x = n
            for _ in range(6):
                x = parent_of(gt, x)
                if x is None:
                    break
                chain.append(x)
            exp = {"section": None, "module": None, "ir": None}
            for a in chain:
                if isinstance(a, gt.Section):
                    exp["section"] = a
                elif isinstance(a, gt.Module):
                    exp["module"] = a
                elif isinstance(a, gt.IR):
                    exp["ir"] = a
            for acc in ("section", "module", "ir"):
                if hasattr(n, acc) and not (
                        acc == "ir" and isinstance(n, gt.IR)):
                    cnt["c04:derived_accessor_checks"] += 1
                    if getattr(n, acc) is not exp[acc]:
                        F.append(("C04", "derived-accessor:%s.%s" % (
                            kind(gt, n), acc),
                            "%s.%s differs from what the forest implies"
                            % (kind(gt, n), acc)))
        # aggregate iterators
        for n in allnodes:
            if not isinstance(n, (gt.IR, gt.Module, gt.Section)):
                continue
            r = reachable(gt, n)[1:]
            exp = {
                "proxy_blocks": [x for x in r if isinstance(x, gt.ProxyBlock)],
                "sections": [x for x in r if isinstance(x, gt.Section)],
                "symbols": [x for x in r if isinstance(x, gt.Symbol)],
                "byte_intervals": [x for x in r
                                   if isinstance(x, gt.ByteInterval)],
                "byte_blocks": [x for x in r if isinstance(x, gt.ByteBlock)],
                "code_blocks": [x for x in r if isinstance(x, gt.CodeBlock)],
                "data_blocks": [x for x in r if isinstance(x, gt.DataBlock)],
                "cfg_nodes": [x for x in r if isinstance(x, gt.CfgNode)],
            }
            for name, want_list in exp.items():
                if isinstance(n, gt.IR):
                    pass
                elif isinstance(n, gt.Module):
                    if name in ("proxy_blocks", "sections", "symbols"):
                        continue  # these are the module's own collections
                else:
                    if name not in ("byte_blocks", "code_blocks",
                                    "data_blocks"):
                        continue
                if not hasattr(n, name):
                    continue
                cnt["c04:aggregate_checks"] += 1
                if ids(getattr(n, name)) != ids(want_list):
                    F.append(("C04", "aggregate:%s.%s" % (kind(gt, n), name),
                              "%s.%s does not yield exactly the nodes the "
                              "forest implies, each once" % (kind(gt, n),
                                                             name)))

    # ---- C03: UUID lookup = reachability, per IR --------------------------
    if "C03" in want:
        for ir in irs:
            r = reachable(gt, ir)
            rid = {id(x) for x in r}
            ruuids = {x.uuid for x in r}
            for x in r:
                cnt["c03:attached_lookups"] += 1
                if ir.get_by_uuid(x.uuid) is not x:
                    F.append(("C03", "attached-not-found:" + kind(gt, x),
                              "get_by_uuid does not return an attached %s"
                              % kind(gt, x)))
            for x in allnodes:
                if id(x) in rid or x.uuid in ruuids:
                    continue
                cnt["c03:detached_lookups"] += 1
                got = ir.get_by_uuid(x.uuid)
                if got is not None:
                    F.append(("C03", "stale-entry:" + kind(gt, x),
                              "get_by_uuid returns a %s that is not "
                              "reachable from this IR" % kind(gt, x)))
            for _ in range(2):
                u = _uuid.UUID(int=rnd.getrandbits(128)) if rnd else \
                    _uuid.uuid4()
                if u not in ruuids:
                    cnt["c03:fresh_uuid_lookups"] += 1
                    if ir.get_by_uuid(u) is not None:
                        F.append(("C03", "fresh-uuid-found",
                                  "get_by_uuid returns something for a "
                                  "fresh UUID"))

    # ---- C10: symbol indexes ----------------------------------------------
    if "C10" in want:
        mods = [n for n in allnodes if isinstance(n, gt.Module)]
        syms = [n for n in allnodes if isinstance(n, gt.Symbol)]
        allnames = set(names) | {s.name for s in syms}
        for m in mods:
            members = list(m.symbols)
            for nm in allnames:
                # an equal, distinct string object, not the symbol's own
                nm = bytes(nm, "utf-8").decode("utf-8")
                cnt["c10:symbols_named_checks"] += 1
                exp = [s for s in members if s.name == nm]
                if exp:
                    cnt["c10:symbols_named_nonempty"] += 1
                if ids(m.symbols_named(nm)) != ids(exp):
                    F.append(("C10", "symbols_named",
                              "symbols_named(%r) differs from a scan of the "
                              "module's symbols" % nm))
        for b in allnodes:
            if not isinstance(b, gt.Block):
                continue
            m = b.module
            exp = [] if m is None else [s for s in m.symbols
                                        if s.referent is b]
            cnt["c10:references_checks"] += 1
            if exp:
                cnt["c10:references_nonempty"] += 1
            if ids(b.references) != ids(exp):
                F.append(("C10", "references:" + kind(gt, b),
                          "%s.references differs from a scan of its "
                          "module's symbols" % kind(gt, b)))
    return F


def typed_reference_errors(gt, ir):
    """C17 kind checks on a loaded IR."""
    errs = []
    for m in ir.modules:
        if m.entry_point is not None and not isinstance(m.entry_point,
                                                        gt.CodeBlock):
            errs.append("entry point is a %s" % type(m.entry_point).__name__)
        for y in m.symbols:
            if y.referent is not None and not isinstance(y.referent,
                                                         gt.Block):
                errs.append("symbol referent is a %s"
                            % type(y.referent).__name__)
            if y.value is not None and (isinstance(y.value, bool) or
                                        not isinstance(y.value, int)):
                errs.append("symbol value is a %s" % type(y.value).__name__)
        for bi in m.byte_intervals:
            if len(bi.contents) > bi.size:
                errs.append("interval stores %d bytes but size is %d"
                            % (len(bi.contents), bi.size))
            if bi.initialized_size != len(bi.contents):
                errs.append("initialized_size != len(contents)")
            for b in bi.blocks:
                if not isinstance(b, (gt.CodeBlock, gt.DataBlock)):
                    errs.append("interval holds a %s" % type(b).__name__)
            for off, e in bi.symbolic_expressions.items():
                if not isinstance(e, (gt.SymAddrConst, gt.SymAddrAddr)):
                    errs.append("expression is a %s" % type(e).__name__)
                    continue
                for y in e.symbols:
                    if not isinstance(y, gt.Symbol):
                        errs.append("expression symbol is a %s"
                                    % type(y).__name__)
    for e in ir.cfg:
        for end in (e.source, e.target):
            if not isinstance(end, gt.CfgNode):
                errs.append("CFG endpoint is a %s" % type(end).__name__)
    return errs
