"""Build a spec through the *public* API under a randomly chosen construction
strategy per node (C01 'every construction order the API allows'), and the
inverse: snapshot an IR back into normalised spec form by walking public
attributes only."""
import uuid as _uuid

from . import codecmon, contract, refcodec, spec as gspec


def U(h):
    return _uuid.UUID(hex=h)


def from_neutral(n, t, nodes, rnd, gt):
    """neutral value -> value in this API's form; UUIDs naming built nodes
    become the Node object or stay a UUID at random (both must encode the
    same)."""
    name, kids = t

    def ref(b):
        u = _uuid.UUID(bytes=b)
        node = nodes.get(u.hex)
        if node is not None and (rnd is None or rnd.random() < 0.6):
            return node
        return u

    if name in refcodec.INTS or name in ("bool", "string"):
        return n
    if name == "float":
        return refcodec.f32_from_bits(n[1])
    if name == "double":
        return refcodec.f64_from_bits(n[1])
    if name == "UUID":
        return ref(n[1])
    if name == "Offset":
        return gt.Offset(ref(n[1]), n[2])
    if name == "sequence":
        return [from_neutral(x, kids[0], nodes, rnd, gt) for x in n[1]]
    if name == "set":
        return {from_neutral(x, kids[0], nodes, rnd, gt) for x in n[1]}
    if name == "mapping":
        return {from_neutral(k, kids[0], nodes, rnd, gt):
                from_neutral(x, kids[1], nodes, rnd, gt) for k, x in n[1]}
    if name == "tuple":
        return tuple(from_neutral(x, kt, nodes, rnd, gt)
                     for x, kt in zip(n[1], kids))
    if name == "variant":
        return gt.Variant(n[1], from_neutral(n[2], kids[n[1]], nodes, rnd,
                                             gt))
    raise ValueError(name)


class Builder:
    def __init__(self, gt, rnd, stats=None):
        self.gt = gt
        self.rnd = rnd
        self.nodes = {}  # uuid hex -> object
        self.aux_values = {}  # (holder uuid hex, key) -> (value object, type)
        self.stats = stats if stats is not None else {}

    def st(self, key):
        self.stats[key] = self.stats.get(key, 0) + 1

    def enum(self, name, member):
        return getattr(contract.py_enum(self.gt, name), member)

    # ---- attach a child to a parent through a random public route -----
    def attach(self, child, parent, attr, coll):
        """attr: name of the child's parent attribute; coll: the parent's
        collection."""
        gt, rnd = self.gt, self.rnd
        route = rnd.choice(["attr", "add", "update", "ior", "detour-attr",
                            "detour-add"])
        if route.startswith("detour"):
            # first owned by a scratch parent of the right class, then moved
            scratch = self.scratch_parent(parent)
            setattr(child, attr, scratch)
            route = route[7:]
        self.st("attach:%s:%s" % (type(child).__name__, route))
        if route == "attr":
            setattr(child, attr, parent)
        elif route == "add":
            coll.add(child)
        elif route == "update":
            coll.update([child])
        else:
            coll |= {child}

    def scratch_parent(self, parent):
        gt = self.gt
        if isinstance(parent, gt.Module):
            return gt.Module(name="scratch")
        if isinstance(parent, gt.Section):
            return gt.Section(name="scratch")
        if isinstance(parent, gt.ByteInterval):
            return gt.ByteInterval(size=0)
        raise TypeError(parent)

    # ---- nodes -----------------------------------------------------------
    def block(self, b, bi):
        gt, rnd = self.gt, self.rnd
        kw = {"uuid": U(b["uuid"])}
        late = {}
        for k in ("offset", "size"):
            (kw if rnd.random() < 0.6 else late)[k] = b[k]
        if b["kind"] == "code":
            dm = self.enum("DecodeMode", b["decode_mode"])
            if rnd.random() < 0.6:
                kw["decode_mode"] = dm
            else:
                late["decode_mode"] = dm
            cls = gt.CodeBlock
        else:
            cls = gt.DataBlock
        order = rnd.choice(["ctor-parent", "attach-then-set",
                            "set-then-attach"])
        if bi is None:
            order = "bare"
        if order == "ctor-parent":
            obj = cls(byte_interval=bi, **kw)
            self.st("attach:%s:ctor" % cls.__name__)
            for k, v in late.items():
                setattr(obj, k, v)
        else:
            obj = cls(**kw)
            if order == "set-then-attach" or order == "bare":
                for k, v in late.items():
                    setattr(obj, k, v)
                if bi is not None:
                    self.attach(obj, bi, "byte_interval", bi.blocks)
            else:
                self.attach(obj, bi, "byte_interval", bi.blocks)
                for k, v in late.items():
                    setattr(obj, k, v)
        self.nodes[b["uuid"]] = obj
        return obj

    def interval(self, d, sec):
        gt, rnd = self.gt, self.rnd
        contents = bytes.fromhex(d["contents"])
        kw = {"uuid": U(d["uuid"]), "size": d["size"]}
        late = {}
        if rnd.random() < 0.6:
            kw["address"] = d["address"]
        else:
            late["address"] = d["address"]
        k = rnd.random()
        if k < 0.5:
            kw["contents"] = contents
        elif k < 0.75:
            kw["contents"] = bytearray(contents)
            kw["initialized_size"] = len(contents)
        else:
            late["contents"] = contents
        bottom_up = rnd.random() < 0.35
        if bottom_up:
            kids = [self.block(b, None) for b in d["blocks"]]
            kw["blocks"] = rnd.choice([kids, set(kids), iter(kids)])
            self.st("attach:blocks:parent-ctor")
        order = rnd.choice(["ctor-parent", "attach-first", "attach-last"])
        if sec is None:
            order = "bare"
        if order == "ctor-parent":
            obj = gt.ByteInterval(section=sec, **kw)
            self.st("attach:ByteInterval:ctor")
        else:
            obj = gt.ByteInterval(**kw)
            if order == "attach-first":
                self.attach(obj, sec, "section", sec.byte_intervals)
        if "contents" in late:
            if rnd.random() < 0.5:
                obj.contents = bytearray(late["contents"])
            else:
                obj.initialized_size = len(late["contents"])
                obj.contents[:] = late["contents"]
        if "address" in late:
            obj.address = late["address"]
        if not bottom_up:
            for b in d["blocks"]:
                self.block(b, obj)
        if order == "attach-last":
            self.attach(obj, sec, "section", sec.byte_intervals)
        self.nodes[d["uuid"]] = obj
        return obj

    def section(self, d, mod):
        gt, rnd = self.gt, self.rnd
        flags = [self.enum("SectionFlag", f) for f in d["flags"]]
        kw = {"uuid": U(d["uuid"])}
        late = {}
        (kw if rnd.random() < 0.6 else late)["name"] = d["name"]
        k = rnd.random()
        if k < 0.4:
            kw["flags"] = set(flags)
        elif k < 0.6:
            kw["flags"] = iter(flags)
        else:
            late["flags"] = flags
        bottom_up = rnd.random() < 0.35
        if bottom_up:
            kids = [self.interval(x, None) for x in d["intervals"]]
            kw["byte_intervals"] = rnd.choice([kids, set(kids)])
            self.st("attach:byte_intervals:parent-ctor")
        order = rnd.choice(["ctor-parent", "attach-first", "attach-last"])
        if mod is None:
            order = "bare"
        if order == "ctor-parent":
            obj = gt.Section(module=mod, **kw)
            self.st("attach:Section:ctor")
        else:
            obj = gt.Section(**kw)
            if order == "attach-first":
                self.attach(obj, mod, "module", mod.sections)
        if "name" in late:
            obj.name = late["name"]
        if "flags" in late:
            if rnd.random() < 0.5:
                obj.flags = set(late["flags"])
            else:
                for f in late["flags"]:
                    obj.flags.add(f)
        if not bottom_up:
            for x in d["intervals"]:
                self.interval(x, obj)
        if order == "attach-last":
            self.attach(obj, mod, "module", mod.sections)
        self.nodes[d["uuid"]] = obj
        return obj

    def proxy(self, d, mod):
        gt, rnd = self.gt, self.rnd
        if mod is not None and rnd.random() < 0.4:
            obj = gt.ProxyBlock(uuid=U(d["uuid"]), module=mod)
            self.st("attach:ProxyBlock:ctor")
        else:
            obj = gt.ProxyBlock(uuid=U(d["uuid"]))
            if mod is not None:
                self.attach(obj, mod, "module", mod.proxies)
        self.nodes[d["uuid"]] = obj
        return obj

    def symbol(self, d, mod):
        gt, rnd = self.gt, self.rnd
        pay = d["payload"]
        if pay is None:
            payload = None
        elif "value" in pay:
            payload = pay["value"]
        else:
            payload = self.nodes[pay["ref"]]
        kw = {"uuid": U(d["uuid"])}
        late = {}
        name_late = rnd.random() < 0.3
        (late if rnd.random() < 0.4 else kw)["at_end"] = d["at_end"]
        pay_late = rnd.random() < 0.5
        if not pay_late:
            kw["payload"] = payload
        order = rnd.choice(["ctor-parent", "attach-first", "attach-last"])
        if mod is None:
            order = "bare"
        nm = "tmp-name" if name_late else d["name"]
        if order == "ctor-parent":
            obj = gt.Symbol(nm, module=mod, **kw)
            self.st("attach:Symbol:ctor")
        else:
            obj = gt.Symbol(nm, **kw)
            if order == "attach-first":
                self.attach(obj, mod, "module", mod.symbols)
        if name_late:
            obj.name = d["name"]
        if "at_end" in late:
            obj.at_end = late["at_end"]
        if pay_late:
            if pay is None:
                if rnd.random() < 0.5:
                    obj.referent = None
                else:
                    obj.value = None
            elif "value" in pay:
                if rnd.random() < 0.5:
                    # go through a referent first: payload switch
                    blocks = [n for n in self.nodes.values()
                              if isinstance(n, gt.Block)]
                    if blocks:
                        obj.referent = rnd.choice(blocks)
                obj.value = payload
            else:
                if rnd.random() < 0.5:
                    obj.value = 7
                obj.referent = payload
        if order == "attach-last":
            self.attach(obj, mod, "module", mod.symbols)
        self.nodes[d["uuid"]] = obj
        return obj

    def expr(self, e):
        gt, rnd = self.gt, self.rnd
        attrs = [self.enum("SymAttribute", a) if isinstance(a, str) else a
                 for a in e["attrs"]]
        early = rnd.random() < 0.6
        a_arg = rnd.choice([set(attrs), list(attrs), iter(list(attrs))]) \
            if early else None
        if e["kind"] == "const":
            obj = gt.SymAddrConst(e["offset"], self.nodes[e["sym"]],
                                  *([a_arg] if early else []))
        else:
            obj = gt.SymAddrAddr(e["scale"], e["offset"],
                                 self.nodes[e["sym"]], self.nodes[e["sym2"]],
                                 *([a_arg] if early else []))
        if not early:
            if rnd.random() < 0.5:
                obj.attributes = set(attrs)
            else:
                for a in attrs:
                    obj.attributes.add(a)
        return obj

    def aux(self, holder, auxspec, via_ctor_dict=None):
        for k, a in auxspec.items():
            t = refcodec.parse(a["type"])
            v = from_neutral(codecmon.from_json(a["pv"]), t, self.nodes,
                             self.rnd, self.gt)
            ad = self.gt.AuxData(v, a["type"])
            # the caller-side reference to the value object (a caller may
            # keep editing the container it handed to AuxData)
            self.aux_values[(holder.uuid.hex, k)] = (v, t)
            if via_ctor_dict is not None:
                via_ctor_dict[k] = ad
            else:
                holder.aux_data[k] = ad

    def module(self, d, ir, position=None):
        """position: None = append; int = insert at that index."""
        gt, rnd = self.gt, self.rnd
        kw = {"uuid": U(d["uuid"])}
        late = {}
        for k, v in (("binary_path", d["binary_path"]),
                     ("isa", self.enum("ISA", d["isa"])),
                     ("file_format", self.enum("FileFormat",
                                               d["file_format"])),
                     ("byte_order", self.enum("ByteOrder", d["byte_order"])),
                     ("preferred_addr", d["preferred_addr"]),
                     ("rebase_delta", d["rebase_delta"])):
            (kw if rnd.random() < 0.6 else late)[k] = v
        name_late = rnd.random() < 0.3
        bottom_up = rnd.random() < 0.3
        order = rnd.choice(["ctor-parent", "attach-first", "attach-last"])
        if ir is None:
            order = "bare"
        if position is not None and order == "ctor-parent":
            order = "attach-first"
        if bottom_up:
            # children first, handed to the constructor
            secs = [self.section(x, None) for x in d["sections"]]
            prox = [self.proxy(x, None) for x in d["proxies"]]
            syms = [self.symbol(x, None) for x in d["symbols"]]
            kw["sections"] = rnd.choice([secs, set(secs)])
            kw["proxies"] = rnd.choice([prox, set(prox)])
            kw["symbols"] = rnd.choice([syms, set(syms), iter(syms)])
            if d["entry_point"] and d["entry_point"] in self.nodes and \
                    rnd.random() < 0.5:
                kw["entry_point"] = self.nodes[d["entry_point"]]
            self.st("attach:module-children:parent-ctor")
        nm = "tmp" if name_late else d["name"]

        def attach_mod(obj):
            route = rnd.choice(["attr", "append", "insert", "extend",
                                "iadd"])
            if position is not None:
                route = "insert"
            self.st("attach:Module:%s" % route)
            if route == "attr":
                obj.ir = ir
            elif route == "append":
                ir.modules.append(obj)
            elif route == "insert":
                ir.modules.insert(len(ir.modules) if position is None
                                  else position, obj)
            elif route == "extend":
                ir.modules.extend([obj])
            else:
                ir.modules += [obj]

        if order == "ctor-parent":
            obj = gt.Module(name=nm, ir=ir, **kw)
            self.st("attach:Module:ctor")
        else:
            obj = gt.Module(name=nm, **kw)
            if order == "attach-first":
                attach_mod(obj)
        self.nodes[d["uuid"]] = obj
        if name_late:
            obj.name = d["name"]
        for k, v in late.items():
            setattr(obj, k, v)
        if not bottom_up:
            for x in d["proxies"]:
                self.proxy(x, obj)
            for x in d["sections"]:
                self.section(x, obj)
            for x in d["symbols"]:
                self.symbol(x, obj)
        if d["entry_point"] and obj.entry_point is None and \
                d["entry_point"] in self.nodes:
            obj.entry_point = self.nodes[d["entry_point"]]
        for s in d["sections"]:
            for bi in s["intervals"]:
                biobj = self.nodes[bi["uuid"]]
                items = list(bi["exprs"].items())
                rnd.shuffle(items)
                route = rnd.choice(["setitem", "update", "assign"])
                built = {int(off): self.expr(e) for off, e in items}
                if route == "setitem":
                    for off, ex in built.items():
                        biobj.symbolic_expressions[off] = ex
                elif route == "update":
                    biobj.symbolic_expressions.update(built)
                else:
                    biobj.symbolic_expressions = built
                self.st("exprs:%s" % route)
        if order == "attach-last":
            attach_mod(obj)
        return obj

    def build(self, sp):
        gt, rnd = self.gt, self.rnd
        mods = sp["modules"]
        ir_kw = {"uuid": U(sp["uuid"])}
        if sp["version"] != 4 or rnd.random() < 0.5:
            ir_kw["version"] = sp["version"]
        k = rnd.random()
        if k < 0.25 and mods:
            # IR(modules=[...]) bottom-up
            objs = [self.module(m, None) for m in mods]
            ir = gt.IR(modules=rnd.choice([objs, iter(objs)]), **ir_kw)
            self.st("attach:Module:ir-ctor")
        elif k < 0.5 and len(mods) > 1:
            # create in shuffled order, insert at the final position
            ir = gt.IR(**ir_kw)
            order = list(range(len(mods)))
            rnd.shuffle(order)
            placed = []
            for i in order:
                pos = sum(1 for j in placed if j < i)
                self.module(mods[i], ir, position=pos)
                placed.append(i)
        else:
            ir = gt.IR(**ir_kw)
            for m in mods:
                self.module(m, ir)
        self.nodes[sp["uuid"]] = ir
        for m in mods:  # entry points in modules built later
            if m["entry_point"] and \
                    self.nodes[m["uuid"]].entry_point is None:
                self.nodes[m["uuid"]].entry_point = \
                    self.nodes[m["entry_point"]]
        edges = []
        for e in sp["edges"]:
            lab = None
            if e["label"] is not None:
                lab = gt.Edge.Label(self.enum("EdgeType", e["label"]["type"]),
                                    e["label"]["conditional"],
                                    e["label"]["direct"])
            edges.append(gt.Edge(self.nodes[e["src"]], self.nodes[e["tgt"]],
                                 lab))
        rnd.shuffle(edges)
        route = rnd.choice(["add", "update", "ior", "assign"])
        if route == "add":
            for e in edges:
                ir.cfg.add(e)
        elif route == "update":
            ir.cfg.update(edges)
        elif route == "ior":
            ir.cfg |= set(edges)
        else:
            ir.cfg = gt.CFG(edges)
        self.st("cfg:%s" % route)
        self.aux(ir, sp["aux"])
        for m in mods:
            self.aux(self.nodes[m["uuid"]], m["aux"])
        return ir


def build(sp, gt, rnd, stats=None, want_builder=False):
    b = Builder(gt, rnd, stats)
    ir = b.build(sp)
    if want_builder:
        return ir, b.nodes, b
    return ir, b.nodes


def loaded_aux_values(rnd, gt, ir, share=0.6):
    """(holder uuid hex, key) -> (value object as the table hands it out,
    parsed type) for a random share of the tables of a loaded IR: reading
    .data is what a caller does before editing a container in place."""
    out = {}
    for h in [ir] + list(ir.modules):
        for k, ad in sorted(h.aux_data.items()):
            if rnd.random() >= share:
                continue
            try:
                t = refcodec.parse(ad.type_name)
            except Exception:
                continue
            out[(h.uuid.hex, k)] = (ad.data, t)
    return out


def mutate_live(rnd, gt, sp, nodes, aux_values, count):
    """Edit a live, already saved IR through public attributes and through
    references the caller kept (AuxData containers); returns the updated
    spec and the labels of the edits made."""
    import copy
    from . import auxgen
    sp = copy.deepcopy(sp)
    done = []
    E = contract.ENUMS

    def holder_spec(uuid_hex):
        if sp["uuid"] == uuid_hex:
            return sp
        for m in sp["modules"]:
            if m["uuid"] == uuid_hex:
                return m

    class P:  # minimal pool for auxgen over this spec's nodes
        def __init__(self):
            self.gt = gt

        def pick(self, r):
            import uuid as _u
            return _u.UUID(int=r.getrandbits(128))

    for _ in range(count):
        k = rnd.randrange(14)
        if k >= 12:
            # a symbol's payload switched between none / value / referent
            ms = [m for m in sp["modules"] if m["symbols"]]
            if not ms:
                continue
            m = rnd.choice(ms)
            y = rnd.choice(m["symbols"])
            blocks = [b["uuid"] for s_ in m["sections"]
                      for bi in s_["intervals"] for b in bi["blocks"]] + \
                [p_["uuid"] for p_ in m["proxies"]]
            opts = [None, {"value": rnd.choice([0, 1, (1 << 64) - 1])}]
            if blocks:
                opts.append({"ref": rnd.choice(blocks)})
            new = rnd.choice([o for o in opts if o != y["payload"]] or opts)
            o = nodes[y["uuid"]]
            if new is None:
                if rnd.random() < 0.5:
                    o.value = None
                else:
                    o.referent = None
            elif "value" in new:
                o.value = new["value"]
            else:
                o.referent = nodes[new["ref"]]
            y["payload"] = new
            done.append("symbol.payload:to-" + (
                "None" if new is None else list(new)[0]))
            continue
        if k == 11:
            # entry point changed or cleared
            if not sp["modules"]:
                continue
            m = rnd.choice(sp["modules"])
            code = [b["uuid"] for m2 in sp["modules"]
                    for s_ in m2["sections"] for bi in s_["intervals"]
                    for b in bi["blocks"] if b["kind"] == "code"]
            new = rnd.choice([None] + code)
            nodes[m["uuid"]].entry_point = None if new is None \
                else nodes[new]
            m["entry_point"] = new
            done.append("module.entry_point")
            continue
        if k >= 9:
            # a node taken out of its parent, given another UUID, and put
            # back: everything that refers to it refers to the object, so
            # the next file must carry the new UUID at every site
            from . import perturb
            import json as _json
            import uuid as _uuid
            cands = []
            for m in sp["modules"]:
                cands += [(p["uuid"], "module") for p in m["proxies"]]
                cands += [(y["uuid"], "module") for y in m["symbols"]]
                for s_ in m["sections"]:
                    cands.append((s_["uuid"], "module"))
                    for bi in s_["intervals"]:
                        cands.append((bi["uuid"], "section"))
                        cands += [(b["uuid"], "byte_interval")
                                  for b in bi["blocks"]]
            auxtext = _json.dumps([sp["aux"]] + [m["aux"]
                                                 for m in sp["modules"]])
            cands = [c for c in cands if c[0] not in auxtext]
            if not cands:
                continue
            old, attr = rnd.choice(cands)
            new = "%032x" % rnd.getrandbits(128)
            o = nodes[old]
            parent = getattr(o, attr)
            setattr(o, attr, None)
            o.uuid = _uuid.UUID(hex=new)
            setattr(o, attr, parent)
            sp = perturb.rename_uuid(sp, old, new)
            nodes[new] = nodes.pop(old)
            done.append("uuid-reassigned-while-detached:" + type(o).__name__)
            continue
        if k <= 2 and aux_values:
            (hu, key), (v, t) = rnd.choice(sorted(
                aux_values.items(), key=lambda kv: kv[0]))
            # the first container found inside the value (through tuples,
            # variants, elements and values) is edited in place
            if not auxgen.mutate_nested(rnd, v, t, P()):
                continue
            holder_spec(hu)["aux"][key]["pv"] = codecmon.to_json(
                refcodec.neutral(v, t))
            done.append("aux-container-edited-through-kept-reference")
        elif k == 3 and sp["modules"]:
            m = rnd.choice(sp["modules"])
            m["name"] = m["name"] + "~"
            nodes[m["uuid"]].name = m["name"]
            done.append("module.name")
        elif k == 4:
            ys = [y for m in sp["modules"] for y in m["symbols"]]
            if ys:
                y = rnd.choice(ys)
                y["at_end"] = not y["at_end"]
                y["name"] = y["name"] + "2"
                nodes[y["uuid"]].at_end = y["at_end"]
                nodes[y["uuid"]].name = y["name"]
                done.append("symbol.name+at_end")
        elif k == 5:
            ivs = [bi for m in sp["modules"] for s_ in m["sections"]
                   for bi in s_["intervals"]]
            if ivs:
                bi = rnd.choice(ivs)
                bi["address"] = rnd.choice([None, 0, 77, (1 << 64) - 1])
                nodes[bi["uuid"]].address = bi["address"]
                done.append("interval.address")
        elif k == 6:
            bs = [b for m in sp["modules"] for s_ in m["sections"]
                  for bi in s_["intervals"] for b in bi["blocks"]]
            if bs:
                b = rnd.choice(bs)
                b["size"] = rnd.choice([0, 1, 9, 1 << 40])
                b["offset"] = rnd.choice([0, 3, 1 << 33])
                nodes[b["uuid"]].size = b["size"]
                nodes[b["uuid"]].offset = b["offset"]
                done.append("block.size+offset")
        elif k == 7:
            es = [(bi, off) for m in sp["modules"] for s_ in m["sections"]
                  for bi in s_["intervals"] for off in bi["exprs"]]
            if es:
                bi, off = rnd.choice(es)
                e = bi["exprs"][off]
                new = rnd.choice([a for a in sorted(
                    E["SymAttribute"].values()) if a not in e["attrs"]])
                e["attrs"].append(new)
                nodes[bi["uuid"]].symbolic_expressions[int(off)] \
                    .attributes.add(getattr(gt.SymbolicExpression.Attribute,
                                            new))
                done.append("expr.attributes")
        elif k == 8:
            ss = [s_ for m in sp["modules"] for s_ in m["sections"]]
            if ss:
                s_ = rnd.choice(ss)
                miss = [f for f in sorted(E["SectionFlag"].values())
                        if f not in s_["flags"]]
                if miss:
                    f = rnd.choice(miss)
                    s_["flags"].append(f)
                    nodes[s_["uuid"]].flags.add(getattr(gt.Section.Flag, f))
                    done.append("section.flags")
    return sp, done


# ---------------------------------------------------------------------------
def enum_name(x):
    return x.name


def snapshot(ir, gt, aux_values=True):
    """Normalised spec form of an IR, from public attributes only."""
    def aux(holder):
        out = {}
        for k, a in holder.aux_data.items():
            if not aux_values:
                out[k] = None
                continue
            t = refcodec.parse(a.type_name)
            out[k] = {"type": a.type_name, "pv": codecmon.to_json(
                refcodec.norm(refcodec.neutral(a.data, t)))}
        return out

    def attr(a):
        return a.name if isinstance(a, gt.SymbolicExpression.Attribute) \
            else a

    def expr(e):
        if isinstance(e, gt.SymAddrConst):
            d = {"kind": "const", "offset": e.offset,
                 "sym": e.symbol.uuid.hex}
        else:
            d = {"kind": "addr", "scale": e.scale, "offset": e.offset,
                 "sym": e.symbol1.uuid.hex, "sym2": e.symbol2.uuid.hex}
        d["attrs"] = sorted((attr(a) for a in e.attributes),
                            key=gspec.attr_key)
        return d

    out = {"uuid": ir.uuid.hex, "version": ir.version, "aux": aux(ir),
           "modules": [], "edges": []}
    for m in ir.modules:
        md = {"uuid": m.uuid.hex, "name": m.name,
              "binary_path": m.binary_path, "isa": m.isa.name,
              "file_format": m.file_format.name,
              "byte_order": m.byte_order.name,
              "preferred_addr": m.preferred_addr,
              "rebase_delta": m.rebase_delta,
              "entry_point": m.entry_point.uuid.hex
              if m.entry_point is not None else None,
              "aux": aux(m),
              "proxies": sorted(({"uuid": p.uuid.hex} for p in m.proxies),
                                key=lambda x: x["uuid"]),
              "sections": [], "symbols": []}
        for y in m.symbols:
            if y.referent is not None:
                pay = {"ref": y.referent.uuid.hex}
            elif y.value is not None:
                pay = {"value": y.value}
            else:
                pay = None
            md["symbols"].append({"uuid": y.uuid.hex, "name": y.name,
                                  "at_end": y.at_end, "payload": pay})
        md["symbols"].sort(key=lambda x: x["uuid"])
        for s in m.sections:
            sd = {"uuid": s.uuid.hex, "name": s.name,
                  "flags": sorted(f.name for f in s.flags), "intervals": []}
            for bi in s.byte_intervals:
                bd = {"uuid": bi.uuid.hex, "address": bi.address,
                      "size": bi.size, "contents": bytes(bi.contents).hex(),
                      "blocks": [], "exprs": {}}
                for b in bi.blocks:
                    if isinstance(b, gt.CodeBlock):
                        bd["blocks"].append({
                            "uuid": b.uuid.hex, "kind": "code",
                            "offset": b.offset, "size": b.size,
                            "decode_mode": b.decode_mode.name})
                    else:
                        bd["blocks"].append({
                            "uuid": b.uuid.hex,
                            "kind": "data" if isinstance(b, gt.DataBlock)
                            else type(b).__name__,
                            "offset": b.offset, "size": b.size})
                bd["blocks"].sort(key=lambda x: x["uuid"])
                bd["exprs"] = {int(k): expr(e) for k, e in sorted(
                    bi.symbolic_expressions.items())}
                sd["intervals"].append(bd)
            sd["intervals"].sort(key=lambda x: x["uuid"])
            md["sections"].append(sd)
        md["sections"].sort(key=lambda x: x["uuid"])
        out["modules"].append(md)
    for e in ir.cfg:
        lab = None
        if e.label is not None:
            lab = {"type": e.label.type.name,
                   "conditional": e.label.conditional,
                   "direct": e.label.direct}
        out["edges"].append({"src": e.source.uuid.hex,
                             "tgt": e.target.uuid.hex, "label": lab})
    out["edges"].sort(key=lambda e: (e["src"], e["tgt"], repr(e["label"])))
    return out


def spec_diff(a, b):
    return contract.diff(a, b)
