"""Files assembled without the library's writer: contract data -> message by
descriptor reflection -> bytes with header."""
from . import codecmon, contract, refcodec


def aux_bytes(a):
    t = refcodec.parse(a["type_name"])
    return refcodec.encode_neutral(codecmon.from_json(a["data"][1]), t).hex()


def message_data(gt, sp):
    data = contract.expected_message(sp, gt)
    for holder in [data] + data["modules"]:
        for k, a in holder["aux_data"].items():
            a["data"] = aux_bytes(a)
    return data


def to_bytes(gt, data, version_byte=None, magic=b"GTIRB", reserved=b"\0\0"):
    msg = contract.data_to_msg(data, contract.pb(gt, "IR_pb2").IR())
    if version_byte is None:
        version_byte = data.get("version", 4) & 0xFF
    return magic + reserved + bytes([version_byte]) + msg.SerializeToString()


def file_for(gt, sp, edit=None):
    data = message_data(gt, sp)
    if edit is not None:
        edit(data)
    return to_bytes(gt, data, version_byte=4)
