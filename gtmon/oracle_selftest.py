"""Self-test of the trusted base: gtmon/refcodec.py against hand-written golden
vectors (from the format description) and against the AuxData tables of
python/tests/hello.gtirb, which were written by the C++ implementation;
gtmon/reftypes.py against a few hand-parsed names."""
import os
import sys
import uuid

from . import build as gbuild, refcodec, reftypes


class V:  # duck-typed Variant / Offset for the encoder
    def __init__(self, **kw):
        self.__dict__.update(kw)


def main():
    bad = []
    u = uuid.UUID(int=0x00112233445566778899AABBCCDDEEFF)
    q = lambda n: n.to_bytes(8, "little")
    golden = [
        ("uint16_t", 0x1234, bytes([0x34, 0x12])),
        ("int8_t", -1, b"\xff"),
        ("int64_t", -2, b"\xfe" + b"\xff" * 7),
        ("Addr", 1, q(1)),
        ("bool", True, b"\x01"),
        ("float", 1.0, bytes([0, 0, 0x80, 0x3F])),
        ("double", 1.0, bytes([0, 0, 0, 0, 0, 0, 0xF0, 0x3F])),
        ("string", "\u00e9", q(2) + b"\xc3\xa9"),
        ("UUID", u, u.bytes),
        ("Offset", V(element_id=u, displacement=5), u.bytes + q(5)),
        ("sequence<uint8_t>", [1, 2], q(2) + b"\x01\x02"),
        ("mapping<string,uint8_t>", {"a": 1}, q(1) + q(1) + b"a\x01"),
        ("tuple<uint8_t,uint16_t>", (1, 2), b"\x01\x02\x00"),
        ("variant<uint8_t,string>", V(index=1, val="a"),
         q(1) + q(1) + b"a"),
        ("set<int16_t>", {-2}, q(1) + b"\xfe\xff"),
    ]
    for tn, v, want in golden:
        t = refcodec.parse(tn)
        got = refcodec.encode(v, t)
        n, pos = refcodec.decode(want, t)
        if got != want or pos != len(want) or \
                refcodec.encode_neutral(n, t) != want:
            bad.append("golden %s" % tn)
    for s, want in (("a", ("a", [])), ("a<b,c<d>>", ("a", [("b", []), (
            "c", [("d", [])])])), ("a<", None), ("a,b", None), ("", None),
            ("a<b>c", None), ("a<b,>", None)):
        if reftypes.parse(s) != want:
            bad.append("reftypes %r" % s)
    n_tabs = 0
    path = os.path.join(gbuild.repo_dir(), "python", "tests", "hello.gtirb")
    if os.path.exists(path):
        sys.path.insert(0, sys.argv[1])
        from gtirb.proto import IR_pb2
        m = IR_pb2.IR()
        m.ParseFromString(open(path, "rb").read()[8:])
        tabs = list(m.aux_data.items())
        for mod in m.modules:
            tabs += list(mod.aux_data.items())
        for k, a in tabs:
            t = refcodec.parse(a.type_name)
            if not refcodec.all_known(t):
                continue
            data = bytes(a.data)
            try:
                n, pos = refcodec.decode(data, t)
                ok = pos == len(data) and refcodec.encode_neutral(n, t) == data
            except Exception:
                ok = False
            n_tabs += 1
            if not ok:
                bad.append("hello.gtirb table %s (%s)" % (k, a.type_name))
    print("oracle-selftest: %d golden vectors, %d C++-written AuxData tables "
          "of hello.gtirb decoded completely and re-encoded byte-identically "
          "by the reference codec; problems: %s"
          % (len(golden), n_tabs, ", ".join(bad) or "none"))
    return 1 if bad else 0


if __name__ == "__main__":
    sys.exit(main())
